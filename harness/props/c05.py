"""C05 - reading a ragged array equals reading the list of its rows."""
import itertools
import numpy as np

RULE = ('random ragged arrays (1..6 rows, lengths 1..6, 30% equal-length, 1-D and (len,2) cells, int/float, '
        'four constructor forms) x index expressions from the full read grammar (int, slice, list, ndarray, '
        '(int|slice|list, int|slice|list) tuples, ragged boolean mask; bounds -(len+2)..len+2, steps None,+-1,+-2,+-3) '
        '+ where / iteration / flatten / attributes; thorough adds exhaustive enumeration for total size <= 6; '
        'a case is non-trivial when the expected result is a non-empty value; distinct by canonical (array, op, index)')
ASSUMPTIONS = ['numpy basic/fancy indexing of 1-D arrays and Python list indexing are the reference semantics of the '
               'list-of-rows oracle (Model.PySlice is tied to CPython slice.indices exhaustively each run)',
               'cells are atomic: the model is parametric in the cell type, cell ids stand for cell values',
               'the staged code is compared with the repaired variant of Model.Ragged (getItemV true) on every case']
TRUSTED_EXTRA = ['the Python list-of-rows oracle in harness/props/c05.py (about 60 lines, numpy indexing of 1-D arrays only)']

# the source functions Model.Ragged mirrors (reads only; the writers belong to C06)
MIRRORS = [('enspara/ra/ra.py', ['where', '_convert_from_1d', '_handle_negative_indices', '_convert_from_2d',
                                 '_slice_to_list', 'partition_list', '_row_views', '_get_iis_from_slices',
                                 '_get_iis_from_list', 'RaggedArray.__init__', 'RaggedArray.__getitem__',
                                 'RaggedArray.__len__', 'RaggedArray.shape', 'RaggedArray.size', 'RaggedArray.starts',
                                 'RaggedArray.dtype', 'RaggedArray.flatten'])]

STEPS = [None, 1, 2, 3, -1, -2, -3]
CTORS = ['nested-list', 'nested-array', 'flat-lengths-list', 'flat-lengths-array']

# ----------------------------------------------------------------------------------------------
# building the two sides


def cell_value(k, width, dtype):
    v = 10 * k + 1 if dtype == 'int' else k + 0.5
    if width == 0:
        return v
    return [v, v + 1000]


def build_rows(arr):
    """list of per-row numpy arrays (the specification side) and the flat cell list"""
    lengths, width, dtype = arr['lengths'], arr['width'], arr['dtype']
    np_dt = int if dtype == 'int' else float
    flat = [cell_value(k, width, dtype) for k in range(sum(lengths))]
    rows, k = [], 0
    for L in lengths:
        shape = (L,) if width == 0 else (L, width)
        rows.append(np.array(flat[k:k + L], dtype=np_dt).reshape(shape))
        k += L
    return rows, flat


def build_ra(arr):
    from enspara import ra
    rows, flat = build_rows(arr)
    ctor = arr['ctor']
    np_dt = int if arr['dtype'] == 'int' else float
    if ctor == 'nested-list':
        return ra.RaggedArray([r.tolist() for r in rows])
    if ctor == 'nested-array':
        return ra.RaggedArray([r.copy() for r in rows])
    data = np.array(flat, dtype=np_dt)
    if ctor == 'flat-lengths-list':
        return ra.RaggedArray(data, lengths=list(arr['lengths']))
    if ctor == 'flat-lengths-array':
        return ra.RaggedArray(data, lengths=np.array(arr['lengths'], dtype=int))
    raise ValueError(ctor)


def py_index(idx, mask_ra=None):
    """JSON index description -> the Python object passed to __getitem__"""
    t = idx['t']
    if t == 'int':
        return np.int64(idx['v']) if idx.get('np') else int(idx['v'])
    if t == 'slice':
        return slice(*idx['v'])
    if t == 'list':
        return list(idx['v'])
    if t == 'arr':
        return np.array(idx['v'], dtype=int)
    if t == 'tuple':
        return (py_index(idx['r']), py_index(idx['c']))
    if t == 'mask':
        return mask_ra
    raise ValueError(t)


def build_mask(arr, m):
    from enspara import ra
    if arr['ctor'].startswith('nested'):
        return ra.RaggedArray([np.array(r, dtype=bool) for r in m])
    return ra.RaggedArray(np.array([b for r in m for b in r], dtype=bool),
                          lengths=np.array([len(r) for r in m], dtype=int))


# ----------------------------------------------------------------------------------------------
# the list-of-rows oracle: the property's own words

def _col(row, c):
    t = c['t']
    if t == 'int':
        return row[c['v']]
    if t == 'slice':
        return row[slice(*c['v'])]
    return row[np.array(c['v'], dtype=int)]


def oracle(rows, op, idx):
    """returns (kind, value); kind in rows | arr | cell | pair | attrs.  Raises IndexError like lists/numpy do."""
    if op == 'iter':
        return 'rows', [r for r in rows]
    if op == 'flatten':
        return 'arr', np.concatenate(rows).flatten()
    if op == 'attrs':
        lengths = [len(r) for r in rows]
        starts = [int(sum(lengths[:i])) for i in range(len(lengths))]
        second = lengths[0] if all(l == lengths[0] for l in lengths) else None
        shape = (len(rows), second) + tuple(rows[0].shape[1:])
        return 'attrs', {'lengths': lengths, 'starts': starts, 'shape': list(shape),
                         'size': int(sum(r.size for r in rows)), 'dtype': str(np.concatenate(rows).dtype),
                         'len': len(rows)}
    if op == 'where':
        m = idx['v']
        rr = [i for i, r in enumerate(m) for b in r if b]
        cc = [j for r in m for j, b in enumerate(r) if b]
        return 'pair', [rr, cc]
    assert op == 'get'
    t = idx['t']
    if t == 'int':
        return 'arr', rows[idx['v']]
    if t == 'slice':
        return 'rows', rows[slice(*idx['v'])]
    if t in ('list', 'arr'):
        return 'rows', [rows[i] for i in idx['v']]
    if t == 'mask':
        parts = [rows[i][np.array(m, dtype=bool)] for i, m in enumerate(idx['v'])]
        return 'arr', np.concatenate(parts)
    r, c = idx['r'], idx['c']
    rt, ct = r['t'], c['t']
    if rt == 'int':
        row = rows[r['v']]
        return ('cell' if ct == 'int' else 'arr'), _col(row, c)
    if rt == 'slice':
        sel = rows[slice(*r['v'])]
    else:
        sel = [rows[i] for i in r['v']]
    if rt == 'slice' and ct == 'int':
        return 'rows', [x[np.array([c['v']], dtype=int)] for x in sel]
    if ct == 'slice' or rt == 'slice':
        return 'rows', [_col(x, c) for x in sel]
    if ct == 'int':
        return 'arr', np.array([x[c['v']] for x in sel]).reshape((len(sel),) + rows[0].shape[1:])
    if len(r['v']) != len(c['v']):
        raise ValueError('unpaired')
    out = [rows[i][j] for i, j in zip(r['v'], c['v'])]
    return 'arr', np.array(out).reshape((len(out),) + rows[0].shape[1:])


def canon_expected(kind, val):
    if kind == 'rows':
        return [np.asarray(r).tolist() for r in val]
    if kind in ('arr', 'cell'):
        return np.asarray(val).tolist()
    return val


ERR = {IndexError: 'index-error', ValueError: 'value-error', TypeError: 'type-error'}


def err_kind(e):
    for k, v in ERR.items():
        if isinstance(e, k):
            return v
    return 'other'


def canon_impl(kind, res, cellshape):
    """what the implementation returned, as nested lists; ('bad', why) when the container is of the wrong sort"""
    from enspara import ra
    if kind == 'rows':
        if not isinstance(res, ra.RaggedArray):
            return 'bad', 'expected a RaggedArray, got %s' % type(res).__name__
        rows = [np.asarray(res[i]).tolist() for i in range(len(res))]
        if len(res.lengths) != len(rows) or [int(x) for x in res.lengths] != [len(r) for r in rows]:
            return 'bad', 'result.lengths %s inconsistent with its rows %s' % (list(res.lengths), rows)
        if len(rows) > 0:
            flat = [c for r in rows for c in r]
            if np.asarray(res._data).tolist() != flat:
                return 'bad', 'result._data inconsistent with its rows'
        return 'ok', rows
    if isinstance(res, ra.RaggedArray):
        return 'bad', 'expected an array, got a RaggedArray'
    a = np.asarray(res)
    if kind == 'cell':
        if a.shape == cellshape:
            return 'ok', a.tolist()
        if a.shape == (1,) + cellshape:       # a 1-element array and a scalar are the same value
            return 'ok', a[0].tolist()
        return 'bad', 'element access returned shape %s' % (a.shape,)
    return 'ok', a.tolist()


def expected_kind(idx):
    t = idx['t']
    if t == 'int':
        return 'arr'
    if t in ('slice', 'list', 'arr'):
        return 'rows'
    if t == 'mask':
        return 'arr'
    rt, ct = idx['r']['t'], idx['c']['t']
    if rt == 'int':
        return 'cell' if ct == 'int' else 'arr'
    if rt == 'slice' or ct == 'slice':
        return 'rows'
    return 'arr'



# ----------------------------------------------------------------------------------------------
# index grammar

def bounds(L):
    return [None] + list(range(-(L + 2), L + 3))


def all_slices(L):
    return [[a, b, c] for a in bounds(L) for b in bounds(L) for c in STEPS]


REP_SLICES = [[None, None, None], [1, None, None], [None, -1, None], [None, None, 2], [None, None, -1],
              [-1, None, None], [0, 2, None], [-2, None, -1], [1, -1, 2], [5, None, None]]


def small_lists(L):
    """index lists over -(L+1)..L of length 0..2 plus a few longer ones"""
    rng = list(range(-(L + 1), L + 1))
    out = [[]] + [[i] for i in rng] + [[i, j] for i in rng for j in rng]
    out += [list(range(L)), list(range(L - 1, -1, -1)), [0] * 3, [-1, 0, -1]]
    return out


def comps(total):
    if total == 0:
        yield []
        return
    for k in range(1, total + 1):
        for rest in comps(total - k):
            yield [k] + rest


def S(v):
    return {'t': 'slice', 'v': list(v)}


def I(v):
    return {'t': 'int', 'v': int(v)}


def Lst(v, arr=False):
    return {'t': 'arr' if arr else 'list', 'v': [int(x) for x in v]}


def T(r, c):
    return {'t': 'tuple', 'r': r, 'c': c}


def rep_cols(Lm):
    return [S(s) for s in REP_SLICES] + [I(0), I(-1), I(Lm), Lst([0]), Lst([0, -1]), Lst([]), Lst([Lm - 1], True)]


def rep_rows(n):
    return [S(s) for s in REP_SLICES] + [I(0), I(-1), I(n), Lst([0]), Lst([0, -1]), Lst([]), Lst([n - 1], True),
                                         Lst([n])]


def exhaustive_indices(lengths):
    """every 1-D form; for tuples: every row form x representative column forms and vice versa"""
    n, Lm = len(lengths), max(lengths)
    rows_all = [I(i) for i in range(-(n + 2), n + 3)] + [S(s) for s in all_slices(n)] + \
        [Lst(l) for l in small_lists(n)] + [Lst(l, True) for l in small_lists(n)[:12]]
    cols_all = [I(i) for i in range(-(Lm + 2), Lm + 3)] + [S(s) for s in all_slices(Lm)] + \
        [Lst(l) for l in small_lists(Lm)]
    for r in rows_all:
        yield r
    seen = set()
    for r in rows_all:
        for c in rep_cols(Lm):
            if r['t'] in ('list', 'arr') and c['t'] in ('list', 'arr') and len(r['v']) != len(c['v']):
                continue
            k = repr((r, c))
            if k not in seen:
                seen.add(k)
                yield T(r, c)
    for r in rep_rows(n):
        for c in cols_all:
            if r['t'] in ('list', 'arr') and c['t'] in ('list', 'arr') and len(r['v']) != len(c['v']):
                continue
            k = repr((r, c))
            if k not in seen:
                seen.add(k)
                yield T(r, c)
    # paired lists of equal length up to 2 over all in/out-of-range positions
    rr = list(range(-(n + 1), n + 1))
    cc = list(range(-(Lm + 1), Lm + 1))
    for i in rr:
        for j in cc:
            yield T(Lst([i]), Lst([j]))
    for i, i2 in itertools.product(rr, rr):
        for j, j2 in ((0, 0), (0, -1), (-1, 0), (Lm - 1, 0), (min(lengths), -min(lengths)), (-Lm, 1)):
            yield T(Lst([i, i2]), Lst([j, j2], True))


def all_masks(lengths):
    tot = sum(lengths)
    for bits in itertools.product([False, True], repeat=tot):
        m, k = [], 0
        for L in lengths:
            m.append(list(bits[k:k + L]))
            k += L
        yield m


def rand_slice(rng, L):
    b = bounds(L)
    def pick():
        if rng.random() < 0.3:
            return None
        return b[int(rng.integers(1, len(b)))]
    return [pick(), pick(), STEPS[int(rng.integers(0, len(STEPS)))] if rng.random() < 0.6 else None]


def rand_list(rng, L, k=None, oob=0.1):
    if k is None:
        k = int(rng.integers(0, 5)) if rng.random() < 0.9 else 0
    lo, hi = (-(L + 2), L + 3) if rng.random() < oob else (-L, L)
    return [int(x) for x in rng.integers(lo, hi, size=k)]


def rand_part(rng, L):
    u = rng.random()
    if u < 0.25:
        v = int(rng.integers(-(L + 2), L + 3)) if rng.random() < 0.25 else int(rng.integers(-L, L))
        return {'t': 'int', 'v': v, 'np': bool(rng.random() < 0.3)}
    if u < 0.65:
        return S(rand_slice(rng, L))
    return Lst(rand_list(rng, L), arr=bool(rng.random() < 0.5))


def rand_index(rng, lengths):
    n, Lm = len(lengths), max(lengths)
    u = rng.random()
    if u < 0.25:
        return rand_part(rng, n)
    if u < 0.33:
        return {'t': 'mask', 'v': rand_mask(rng, lengths)}
    r = rand_part(rng, n)
    c = rand_part(rng, Lm if rng.random() < 0.7 else min(lengths))
    if r['t'] in ('list', 'arr') and c['t'] in ('list', 'arr'):
        k = len(r['v'])
        c = Lst(rand_list(rng, min(lengths) if rng.random() < 0.7 else Lm, k=k), arr=c['t'] == 'arr')
    return T(r, c)


def rand_mask(rng, lengths):
    p = [0.0, 0.2, 0.5, 0.9, 1.0][int(rng.integers(0, 5))]
    return [[bool(rng.random() < p) for _ in range(L)] for L in lengths]


def rand_array(rng):
    n = int(rng.integers(1, 7))
    if rng.random() < 0.3:
        lengths = [int(rng.integers(1, 7))] * n
    else:
        lengths = [int(x) for x in rng.integers(1, 7, size=n)]
    return {'lengths': lengths, 'width': 2 if rng.random() < 0.3 else 0,
            'dtype': 'int' if rng.random() < 0.5 else 'float',
            'ctor': CTORS[int(rng.integers(0, 4))]}


# ----------------------------------------------------------------------------------------------
# input classes the tree got wrong before the repair (fix: commit applying C05-ra-reads.diff); now tags only,
# so that the evidence shows these regions are exercised

K_ROWSTEP = 'getitem-2d-row-slice-negative-step'
K_ROWOOR = 'getitem-2d-row-slice-bound-out-of-range'
K_COLSTART = 'getitem-2d-col-slice-negative-start'
K_COLSTEP = 'getitem-2d-col-slice-negative-step'
K_NOROWS = 'getitem-2d-no-rows-selected'
K_EMPTYROW = 'getitem-2d-col-slice-empties-a-row'
K_EMPTYLIST = 'getitem-2d-empty-index-list-or-all-false-mask'
K_RECT = 'rect-fastpath-multidim-cells'


def is_fast(arr):
    L = arr['lengths']
    return arr['ctor'] == 'flat-lengths-array' and all(x == L[0] for x in L)


def result_fast(idx, mresp):
    """the returned RaggedArray is built from ndarray lengths that are all equal (lengths as the code
    computes them = the model's answer)"""
    if idx is None or idx['t'] != 'tuple' or mresp is None:
        return False
    r, c = idx['r'], idx['c']
    if c['t'] != 'slice' or r['t'] == 'int':
        return False
    v = mresp.get('ok')
    if not isinstance(v, dict) or v.get('k') != 'rows':
        return False
    lens = v['lengths']
    return len(lens) > 0 and all(x == lens[0] for x in lens)


def rect_class(arr, op, idx, mresp):
    """reads that go through a row view built by reshape(-1, L) of multi-dimensional cells"""
    if arr['width'] == 0:
        return False
    if is_fast(arr):
        if op in ('iter', 'attrs'):
            return True
        if op == 'get':
            t = idx['t']
            if t in ('int', 'slice', 'list', 'arr'):
                return True
            if t == 'tuple' and idx['r']['t'] == 'int' and idx['c']['t'] == 'slice':
                return True
    return op == 'get' and result_fast(idx, mresp)


def finding_keys(arr, op, idx, mresp=None):
    """all known-finding classes the input belongs to, in priority order"""
    keys = []
    if op == 'get' and idx['t'] == 'tuple':
        n = len(arr['lengths'])
        r, c = idx['r'], idx['c']
        rows, _ = build_rows(arr)
        sel = None
        if r['t'] == 'slice':
            a, b, s = r['v']
            if s is not None and s < 0:
                keys.append(K_ROWSTEP)
            if any(v is not None and not (-n <= v <= n) for v in (a, b)):
                keys.append(K_ROWOOR)
            sel = rows[slice(a, b, s)]
        elif r['t'] in ('list', 'arr'):
            try:
                sel = [rows[i] for i in r['v']]
            except IndexError:
                sel = None
        if c['t'] == 'slice' and r['t'] != 'int':
            a, b, s = c['v']
            if a is not None and a < 0:
                keys.append(K_COLSTART)
            if s is not None and s < 0:
                keys.append(K_COLSTEP)
        if sel is not None and len(sel) == 0 and (r['t'] == 'slice' or c['t'] == 'slice'):
            keys.append(K_NOROWS)
        if sel is not None and c['t'] == 'slice' and any(len(x[slice(*c['v'])]) == 0 for x in sel):
            keys.append(K_EMPTYROW)
        if (c['t'] in ('list', 'arr') and len(c['v']) == 0) or (r['t'] in ('list', 'arr') and len(r['v']) == 0):
            keys.append(K_EMPTYLIST)
    if op == 'get' and idx['t'] == 'mask' and not any(b for row in idx['v'] for b in row):
        keys.append(K_EMPTYLIST)
    if rect_class(arr, op, idx, mresp):
        keys.append(K_RECT)
    return keys


# ----------------------------------------------------------------------------------------------
# model side

def strip(idx):
    if idx is None:
        return None
    if idx['t'] == 'tuple':
        return {'t': 'tuple', 'r': strip(idx['r']), 'c': strip(idx['c'])}
    return {k: v for k, v in idx.items() if k != 'np'}


def probe_repaired(ctx):
    """Reads the tree before the repair got wrong (one per former finding class).  The staged code is held to the
    repaired model variant (`getItemV true`) without exception: a probe that no longer behaves like the list of rows
    is a regression and is reported as a violation like any other wrong read (no key, never excused)."""
    a = {'lengths': [3, 2], 'width': 0, 'dtype': 'int', 'ctor': 'flat-lengths-array'}
    d = {'lengths': [2, 2], 'width': 2, 'dtype': 'int', 'ctor': 'flat-lengths-array'}
    full = S([None, None, None])
    probes = [(a, 'get', T(full, S([-1, None, None]))), (a, 'get', T(S([None, None, -1]), full)),
              (a, 'get', T(S([0, 5, None]), I(0))), (a, 'get', T(S([0, 0, None]), full)),
              (a, 'get', T(full, S([2, None, None]))), (a, 'get', T(I(0), Lst([]))),
              (a, 'get', {'t': 'mask', 'v': [[False] * 3, [False] * 2]}),
              (d, 'iter', None), (d, 'get', T(full, S([0, 1, None])))]
    before = len(ctx.violations)
    for arr, op, idx in probes:
        resp = ctx.driver([model_request(arr, op, idx)])[0]
        judge(ctx, Impl(arr), op, idx, resp)
    ctx.tag('regression-probe', len(probes))
    ctx.note('code_variant', {'held_to': 'repaired (getItemV true)', 'probes': len(probes),
                              'probes_failing': len(ctx.violations) - before})


def model_request(arr, op, idx):
    return {'op': 'C05.' + op, 'lengths': arr['lengths'], 'fast': is_fast(arr), 'fixed': True,
            'ctor': 'rows' if arr['ctor'].startswith('nested') else 'flat', 'idx': strip(idx)}


def model_canon(arr, op, idx, resp, flat):
    """model answer with cell ids replaced by the cell values, in the canonical form of run_impl"""
    if 'error' in resp:
        return {'error': resp['error']}
    v = resp['ok']
    if op == 'iter':
        return {'ok': [[flat[k] for k in r] for r in v]}
    if op == 'flatten':
        out = [flat[k] for k in v]
        if arr['width']:
            out = [x for c in out for x in c]
        return {'ok': out}
    if op == 'where':
        return {'ok': v}
    if op == 'attrs':
        w = arr['width']
        return {'ok': {'lengths': v['lengths'], 'starts': v['starts'], 'shape': v['shape'] + ([w] if w else []),
                       'size': v['size'] * (w or 1), 'len': v['len']}}
    if v['k'] == 'rows':
        return {'ok': [[flat[k] for k in r] for r in v['v']]}
    out = [flat[k] for k in v['v']]
    if expected_kind(idx) == 'cell' and len(out) == 1:
        return {'ok': out[0]}
    return {'ok': out}


class Impl:
    """one real RaggedArray, reused for many reads; every read is followed by a no-modification check"""

    def __init__(self, arr):
        self.arr = arr
        self.rows, self.flat = build_rows(arr)
        self.cellshape = tuple(self.rows[0].shape[1:])
        try:
            self.a = build_ra(arr)
            self.snap = self._snap()
            self.ctor_error = None
        except Exception as e:  # noqa
            self.a = None
            self.ctor_error = {'error': err_kind(e), 'exc': type(e).__name__}

    def _snap(self):
        a = self.a
        return (a._data.tobytes(), a.lengths.tobytes(), repr([np.asarray(r).tolist() for r in a._array]))

    def run(self, op, idx):
        from enspara import ra
        if self.ctor_error:
            return dict(self.ctor_error)
        a = self.a
        try:
            if op == 'iter':
                res = ('ok', [np.asarray(x).tolist() for x in a])
            elif op == 'flatten':
                res = ('ok', np.asarray(a.flatten()).tolist())
            elif op == 'attrs':
                sh = a.shape
                res = ('ok', {'lengths': [int(x) for x in a.lengths], 'starts': [int(x) for x in a.starts],
                              'shape': [None if x is None else int(x) for x in sh], 'size': int(a.size),
                              'dtype': str(a.dtype), 'len': len(a)})
            elif op == 'where':
                w = ra.where(build_mask(self.arr, idx['v']))
                if len(w) == 2:
                    res = ('ok', [[int(x) for x in w[0]], [int(x) for x in w[1]]])
                else:
                    res = ('bad', 'where returned %d arrays' % len(w))
            else:
                mask = build_mask(self.arr, idx['v']) if idx['t'] == 'mask' else None
                pyidx = py_index(idx, mask)
                before = _idx_bytes(pyidx)
                out = a[pyidx]
                if _idx_bytes(pyidx) != before:
                    res = ('bad', 'the read modified the index object')
                else:
                    res = canon_impl(expected_kind(idx), out, self.cellshape)
        except Exception as e:  # noqa
            res = None
            err = {'error': err_kind(e), 'exc': type(e).__name__}
        if self._snap() != self.snap:
            return {'bad': 'the read modified the array'}
        if res is None:
            return err
        return {res[0]: res[1]}


def _idx_bytes(x):
    if isinstance(x, tuple):
        return tuple(_idx_bytes(y) for y in x)
    if isinstance(x, np.ndarray):
        return x.tobytes()
    if hasattr(x, '_data'):
        return x._data.tobytes()
    return repr(x)


def run_oracle_rows(rows, op, idx):
    try:
        kind, val = oracle(rows, op, idx)
    except IndexError:
        return {'error': 'index-error'}
    return {'ok': canon_expected(kind, val)}


def idx_tags(op, idx):
    if op != 'get':
        return ['op=' + op]
    t = idx['t']
    if t != 'tuple':
        return ['get[%s]' % t]
    tags = ['get[%s,%s]' % (idx['r']['t'], idx['c']['t'])]
    for nm, p in (('row', idx['r']), ('col', idx['c'])):
        if p['t'] == 'slice':
            a, b, s = p['v']
            if s is not None and s < 0:
                tags.append(nm + '-step<0')
            if (a is not None and a < 0) or (b is not None and b < 0):
                tags.append(nm + '-negative-bound')
        elif p['t'] == 'int' and p['v'] < 0:
            tags.append(nm + '-negative-int')
    return tags


def judge(ctx, impl, op, idx, mresp, record=True):
    """evaluate the predicate on the real output, then compare the model with the real output"""
    arr = impl.arr
    o = run_oracle_rows(impl.rows, op, idx)
    i = impl.run(op, idx)
    if op == 'attrs' and 'ok' in i:
        # dtype is compared with the oracle only (cells are abstract in the model)
        dt = i['ok'].pop('dtype')
        odt = o['ok'].pop('dtype')
        if dt != odt:
            ctx.violation('dtype attribute %s != dtype of the rows %s' % (dt, odt), {'arr': arr, 'op': op, 'idx': idx})
    elif op == 'attrs':
        o['ok'].pop('dtype')
    case = {'arr': arr, 'op': op, 'idx': idx}
    keys = finding_keys(arr, op, idx, mresp)
    if 'error' in o:
        holds = 'error' in i
    else:
        holds = 'ok' in i and i['ok'] == o['ok']
    if record:
        nontrivial = 'ok' in o and o['ok'] not in ([], None)
        tags = idx_tags(op, idx) + ['width=%d' % arr['width'], 'ctor=' + arr['ctor'], 'dtype=' + arr['dtype'],
                                    'rows=%d' % len(arr['lengths']),
                                    'equal-lengths' if len(set(arr['lengths'])) == 1 else 'unequal-lengths',
                                    'expect-error' if 'error' in o else 'expect-value']
        if 'error' in i:
            tags.append('impl-' + i['error'])
        for k in keys:
            tags.append('formerly-failing-class:' + k)
        ctx.case(case, nontrivial=nontrivial, tags=tags)
    else:
        ctx.evaluations += 1
    if not holds:
        if 'error' in o:
            what = 'access outside a row/array returned %r instead of raising' % (i,)
        else:
            what = 'read differs from the same read on the list of rows: got %r, expected %r' % (i, o['ok'])
        # nothing is excused: the input classes the pre-fix tree got wrong are tags only
        ctx.violation(what[:600], dict(case, got=i, expected=o), key=None)
    # correspondence with the model (repaired variant)
    m = model_canon(arr, op, idx, mresp, impl.flat)
    ii = {k: v for k, v in i.items() if k != 'exc'}
    if m != ii:
        if holds:
            ctx.disagreement('Model.Ragged vs RaggedArray (%s)' % op, dict(case, model=m, impl=i))
        # a violation outside the known classes has already been reported


def slice_scope(ctx):
    reqs, exp = [], []
    vals = [None] + list(range(-8, 9))
    for n in range(0, 7):
        for a, b, c in itertools.product(vals, vals, STEPS):
            reqs.append({'op': 'C05.slice', 'len': n, 'v': [a, b, c]})
            exp.append(list(range(*slice(a, b, c).indices(n))))
    resp = ctx.driver(reqs)
    bad = 0
    for rq, e, r in zip(reqs, exp, resp):
        if r.get('ok') != e:
            bad += 1
            if bad <= 3:
                ctx.disagreement('Model.PySlice.indices vs CPython slice.indices', dict(rq, model=r, cpython=e))
    ctx.tag('slice-scope', len(reqs))
    ctx.evaluations += len(reqs)
    ctx.note('slice_scope_exhaustive', {'n_max': 6, 'cases': len(reqs), 'mismatches': bad})


def run_batch(ctx, batch, record=True):
    """batch: list of (arr, [(op, idx), …])"""
    reqs = [model_request(arr, op, idx) for arr, cases in batch for op, idx in cases]
    resp = ctx.driver(reqs)
    k = 0
    for arr, cases in batch:
        impl = Impl(arr)
        for op, idx in cases:
            judge(ctx, impl, op, idx, resp[k], record=record)
            k += 1


FIXED_OPS = [('iter', None), ('flatten', None), ('attrs', None)]


def run(ctx):
    rng = ctx.rng
    probe_repaired(ctx)
    slice_scope(ctx)
    # random arrays x random index expressions
    batch = []
    for _ in range(ctx.n(1500, 30000)):
        arr = rand_array(rng)
        cases = list(FIXED_OPS)
        cases.append(('where', {'t': 'mask', 'v': rand_mask(rng, arr['lengths'])}))
        for _ in range(8):
            cases.append(('get', rand_index(rng, arr['lengths'])))
        batch.append((arr, cases))
        if len(batch) >= 2000:
            run_batch(ctx, batch)
            batch = []
    run_batch(ctx, batch)
    # exhaustive small scope
    maxtot = ctx.n(3, 6)
    variants = [(w, d, c) for w in (0, 2) for d in ('int', 'float') for c in CTORS]
    k = int(rng.integers(0, len(variants)))
    nex = 0
    for total in range(1, maxtot + 1):
        for lengths in comps(total):
            w, d, c = variants[k % len(variants)]
            k += 5
            # the slice arithmetic does not depend on the variant: one full enumeration per lengths
            # vector, rotating the variant; the 1-D cell / ndarray-lengths variant every time for size <= 4
            todo = [{'lengths': lengths, 'width': w, 'dtype': d, 'ctor': c}]
            if total <= 4 and (w, c) != (0, 'flat-lengths-array'):
                todo.append({'lengths': lengths, 'width': 0, 'dtype': 'int', 'ctor': 'flat-lengths-array'})
            for arr in todo:
                cases = [('get', i) for i in exhaustive_indices(lengths)]
                cases += [('get', {'t': 'mask', 'v': m}) for m in all_masks(lengths)]
                cases += [('where', {'t': 'mask', 'v': m}) for m in all_masks(lengths)]
                cases += FIXED_OPS
                nex += len(cases)
                for j in range(0, len(cases), 20000):
                    run_batch(ctx, [(arr, cases[j:j + 20000])], record=(total <= 3))
    ctx.tag('exhaustive-small-scope', nex)
    ctx.note('exhaustive_scope', {'total_size_max': maxtot, 'cases': nex})


def replay(ctx, data):
    if data.get('op') == 'C05.slice':
        r = ctx.driver([{k: data[k] for k in ('op', 'len', 'v')}])[0]
        e = list(range(*slice(*data['v']).indices(data['len'])))
        if r.get('ok') != e:
            ctx.disagreement('Model.PySlice.indices vs CPython slice.indices', data)
        return
    arr, op, idx = data['arr'], data['op'], data.get('idx')
    resp = ctx.driver([model_request(arr, op, idx)])[0]
    judge(ctx, Impl(arr), op, idx, resp)
