"""C05 - reading a ragged array equals reading the list of its rows."""
import itertools
import numpy as np

RULE = ('random ragged arrays (1..6 rows, lengths 1..6, 30% equal-length, 1-D and (len,2) cells, int/float, '
        'four constructor forms) x index expressions from the full read grammar (int, slice, list, ndarray, '
        '(int|slice|list, int|slice|list) tuples, ragged boolean mask; bounds -(len+2)..len+2, steps None,+-1,+-2,+-3) '
        '+ where / iteration / flatten / attributes; thorough adds exhaustive enumeration for total size <= 6; '
        'a case is non-trivial when the expected result is a non-empty value; distinct by canonical (array, op, index)')
ASSUMPTIONS = ['numpy basic/fancy indexing of 1-D arrays and Python list indexing are the reference semantics of the '
               'list-of-rows oracle (Model.PySlice is tied to CPython slice.indices exhaustively each run)',
               'cells are atomic: the model is parametric in the cell type, cell ids stand for cell values']

STEPS = [None, 1, 2, 3, -1, -2, -3]
CTORS = ['nested-list', 'nested-array', 'flat-lengths-list', 'flat-lengths-array']

# ----------------------------------------------------------------------------------------------
# building the two sides


def cell_value(k, width, dtype):
    v = 10 * k + 1 if dtype == 'int' else k + 0.5
    if width == 0:
        return v
    return [v, v + 1000]


def build_rows(arr):
    """list of per-row numpy arrays (the specification side) and the flat cell list"""
    lengths, width, dtype = arr['lengths'], arr['width'], arr['dtype']
    np_dt = int if dtype == 'int' else float
    flat = [cell_value(k, width, dtype) for k in range(sum(lengths))]
    rows, k = [], 0
    for L in lengths:
        shape = (L,) if width == 0 else (L, width)
        rows.append(np.array(flat[k:k + L], dtype=np_dt).reshape(shape))
        k += L
    return rows, flat


def build_ra(arr):
    from enspara import ra
    rows, flat = build_rows(arr)
    ctor = arr['ctor']
    np_dt = int if arr['dtype'] == 'int' else float
    if ctor == 'nested-list':
        return ra.RaggedArray([r.tolist() for r in rows])
    if ctor == 'nested-array':
        return ra.RaggedArray([r.copy() for r in rows])
    data = np.array(flat, dtype=np_dt)
    if ctor == 'flat-lengths-list':
        return ra.RaggedArray(data, lengths=list(arr['lengths']))
    if ctor == 'flat-lengths-array':
        return ra.RaggedArray(data, lengths=np.array(arr['lengths'], dtype=int))
    raise ValueError(ctor)


def py_index(idx, mask_ra=None):
    """JSON index description -> the Python object passed to __getitem__"""
    t = idx['t']
    if t == 'int':
        return np.int64(idx['v']) if idx.get('np') else int(idx['v'])
    if t == 'slice':
        return slice(*idx['v'])
    if t == 'list':
        return list(idx['v'])
    if t == 'arr':
        return np.array(idx['v'], dtype=int)
    if t == 'tuple':
        return (py_index(idx['r']), py_index(idx['c']))
    if t == 'mask':
        return mask_ra
    raise ValueError(t)


def build_mask(arr, m):
    from enspara import ra
    if arr['ctor'].startswith('nested'):
        return ra.RaggedArray([np.array(r, dtype=bool) for r in m])
    return ra.RaggedArray(np.array([b for r in m for b in r], dtype=bool),
                          lengths=np.array([len(r) for r in m], dtype=int))


# ----------------------------------------------------------------------------------------------
# the list-of-rows oracle: the property's own words

def _col(row, c):
    t = c['t']
    if t == 'int':
        return row[c['v']]
    if t == 'slice':
        return row[slice(*c['v'])]
    return row[np.array(c['v'], dtype=int)]


def oracle(rows, op, idx):
    """returns (kind, value); kind in rows | arr | cell | pair | attrs.  Raises IndexError like lists/numpy do."""
    if op == 'iter':
        return 'rows', [r for r in rows]
    if op == 'flatten':
        return 'arr', np.concatenate(rows).flatten()
    if op == 'attrs':
        lengths = [len(r) for r in rows]
        starts = [int(sum(lengths[:i])) for i in range(len(lengths))]
        second = lengths[0] if all(l == lengths[0] for l in lengths) else None
        shape = (len(rows), second) + tuple(rows[0].shape[1:])
        return 'attrs', {'lengths': lengths, 'starts': starts, 'shape': list(shape),
                         'size': int(sum(r.size for r in rows)), 'dtype': str(np.concatenate(rows).dtype),
                         'len': len(rows)}
    if op == 'where':
        m = idx['v']
        rr = [i for i, r in enumerate(m) for b in r if b]
        cc = [j for r in m for j, b in enumerate(r) if b]
        return 'pair', [rr, cc]
    assert op == 'get'
    t = idx['t']
    if t == 'int':
        return 'arr', rows[idx['v']]
    if t == 'slice':
        return 'rows', rows[slice(*idx['v'])]
    if t in ('list', 'arr'):
        return 'rows', [rows[i] for i in idx['v']]
    if t == 'mask':
        parts = [rows[i][np.array(m, dtype=bool)] for i, m in enumerate(idx['v'])]
        return 'arr', np.concatenate(parts)
    r, c = idx['r'], idx['c']
    rt, ct = r['t'], c['t']
    if rt == 'int':
        row = rows[r['v']]
        return ('cell' if ct == 'int' else 'arr'), _col(row, c)
    if rt == 'slice':
        sel = rows[slice(*r['v'])]
    else:
        sel = [rows[i] for i in r['v']]
    if rt == 'slice' and ct == 'int':
        return 'rows', [x[np.array([c['v']], dtype=int)] for x in sel]
    if ct == 'slice' or rt == 'slice':
        return 'rows', [_col(x, c) for x in sel]
    if ct == 'int':
        return 'arr', np.array([x[c['v']] for x in sel]).reshape((len(sel),) + rows[0].shape[1:])
    if len(r['v']) != len(c['v']):
        raise ValueError('unpaired')
    out = [rows[i][j] for i, j in zip(r['v'], c['v'])]
    return 'arr', np.array(out).reshape((len(out),) + rows[0].shape[1:])


def canon_expected(kind, val):
    if kind == 'rows':
        return [np.asarray(r).tolist() for r in val]
    if kind in ('arr', 'cell'):
        return np.asarray(val).tolist()
    return val


ERR = {IndexError: 'index-error', ValueError: 'value-error', TypeError: 'type-error'}


def err_kind(e):
    for k, v in ERR.items():
        if isinstance(e, k):
            return v
    return 'other'


def canon_impl(kind, res, cellshape):
    """what the implementation returned, as nested lists; ('bad', why) when the container is of the wrong sort"""
    from enspara import ra
    if kind == 'rows':
        if not isinstance(res, ra.RaggedArray):
            return 'bad', 'expected a RaggedArray, got %s' % type(res).__name__
        rows = [np.asarray(res[i]).tolist() for i in range(len(res))]
        if len(res.lengths) != len(rows) or [int(x) for x in res.lengths] != [len(r) for r in rows]:
            return 'bad', 'result.lengths %s inconsistent with its rows %s' % (list(res.lengths), rows)
        if len(rows) > 0:
            flat = [c for r in rows for c in r]
            if np.asarray(res._data).tolist() != flat:
                return 'bad', 'result._data inconsistent with its rows'
        return 'ok', rows
    if isinstance(res, ra.RaggedArray):
        return 'bad', 'expected an array, got a RaggedArray'
    a = np.asarray(res)
    if kind == 'cell':
        if a.shape == cellshape:
            return 'ok', a.tolist()
        if a.shape == (1,) + cellshape:       # a 1-element array and a scalar are the same value
            return 'ok', a[0].tolist()
        return 'bad', 'element access returned shape %s' % (a.shape,)
    return 'ok', a.tolist()


def run_impl(arr, op, idx):
    """-> {'ok': canonical} | {'error': kind} | {'bad': why}; builds a fresh array each time"""
    from enspara import ra
    rows, _ = build_rows(arr)
    cellshape = tuple(rows[0].shape[1:])
    a = build_ra(arr)
    snap = (a._data.tobytes(), a.lengths.tobytes())
    try:
        if op == 'iter':
            res = ('ok', [np.asarray(x).tolist() for x in a])
        elif op == 'flatten':
            res = ('ok', np.asarray(a.flatten()).tolist())
        elif op == 'attrs':
            sh = a.shape
            res = ('ok', {'lengths': [int(x) for x in a.lengths], 'starts': [int(x) for x in a.starts],
                          'shape': [None if x is None else int(x) for x in sh], 'size': int(a.size),
                          'dtype': str(a.dtype), 'len': len(a)})
        elif op == 'where':
            w = ra.where(build_mask(arr, idx['v']))
            res = ('ok', [[int(x) for x in w[0]], [int(x) for x in w[1]]]) if len(w) == 2 else ('bad', 'where returned %d arrays' % len(w))
        else:
            mask = build_mask(arr, idx['v']) if idx['t'] == 'mask' else None
            kind = expected_kind(idx)
            out = a[py_index(idx, mask)]
            res = canon_impl(kind, out, cellshape)
    except Exception as e:  # noqa
        return {'error': err_kind(e), 'exc': type(e).__name__}
    if (a._data.tobytes(), a.lengths.tobytes()) != snap:
        return {'bad': 'the read modified the array'}
    return {res[0]: res[1]}


def expected_kind(idx):
    t = idx['t']
    if t == 'int':
        return 'arr'
    if t in ('slice', 'list', 'arr'):
        return 'rows'
    if t == 'mask':
        return 'arr'
    rt, ct = idx['r']['t'], idx['c']['t']
    if rt == 'int':
        return 'cell' if ct == 'int' else 'arr'
    if rt == 'slice' or ct == 'slice':
        return 'rows'
    return 'arr'


def run_oracle(arr, op, idx):
    rows, _ = build_rows(arr)
    try:
        kind, val = oracle(rows, op, idx)
    except IndexError:
        return {'error': 'index-error'}
    return {'ok': canon_expected(kind, val)}


# ----------------------------------------------------------------------------------------------
# index grammar

def bounds(L):
    return [None] + list(range(-(L + 2), L + 3))


def all_slices(L):
    return [[a, b, c] for a in bounds(L) for b in bounds(L) for c in STEPS]


REP_SLICES = [[None, None, None], [1, None, None], [None, -1, None], [None, None, 2], [None, None, -1],
              [-1, None, None], [0, 2, None], [-2, None, -1], [1, -1, 2], [5, None, None]]


def small_lists(L):
    """index lists over -(L+1)..L of length 0..2 plus a few longer ones"""
    rng = list(range(-(L + 1), L + 1))
    out = [[]] + [[i] for i in rng] + [[i, j] for i in rng for j in rng]
    out += [list(range(L)), list(range(L - 1, -1, -1)), [0] * 3, [-1, 0, -1]]
    return out


def comps(total):
    if total == 0:
        yield []
        return
    for k in range(1, total + 1):
        for rest in comps(total - k):
            yield [k] + rest


def S(v):
    return {'t': 'slice', 'v': list(v)}


def I(v):
    return {'t': 'int', 'v': int(v)}


def Lst(v, arr=False):
    return {'t': 'arr' if arr else 'list', 'v': [int(x) for x in v]}


def T(r, c):
    return {'t': 'tuple', 'r': r, 'c': c}


def rep_cols(Lm):
    return [S(s) for s in REP_SLICES] + [I(0), I(-1), I(Lm), Lst([0]), Lst([0, -1]), Lst([]), Lst([Lm - 1], True)]


def rep_rows(n):
    return [S(s) for s in REP_SLICES] + [I(0), I(-1), I(n), Lst([0]), Lst([0, -1]), Lst([]), Lst([n - 1], True),
                                         Lst([n])]


def exhaustive_indices(lengths):
    """every 1-D form; for tuples: every row form x representative column forms and vice versa"""
    n, Lm = len(lengths), max(lengths)
    rows_all = [I(i) for i in range(-(n + 2), n + 3)] + [S(s) for s in all_slices(n)] + \
        [Lst(l) for l in small_lists(n)] + [Lst(l, True) for l in small_lists(n)[:12]]
    cols_all = [I(i) for i in range(-(Lm + 2), Lm + 3)] + [S(s) for s in all_slices(Lm)] + \
        [Lst(l) for l in small_lists(Lm)]
    for r in rows_all:
        yield r
    seen = set()
    for r in rows_all:
        for c in rep_cols(Lm):
            if r['t'] in ('list', 'arr') and c['t'] in ('list', 'arr') and len(r['v']) != len(c['v']):
                continue
            k = repr((r, c))
            if k not in seen:
                seen.add(k)
                yield T(r, c)
    for r in rep_rows(n):
        for c in cols_all:
            if r['t'] in ('list', 'arr') and c['t'] in ('list', 'arr') and len(r['v']) != len(c['v']):
                continue
            k = repr((r, c))
            if k not in seen:
                seen.add(k)
                yield T(r, c)
    # paired lists of equal length up to 2 over all in/out-of-range positions
    rr = list(range(-(n + 1), n + 1))
    cc = list(range(-(Lm + 1), Lm + 1))
    for i in rr:
        for j in cc:
            yield T(Lst([i]), Lst([j]))
    for i, i2 in itertools.product(rr, rr):
        for j, j2 in ((0, 0), (0, -1), (-1, 0), (Lm - 1, 0), (min(lengths), -min(lengths)), (-Lm, 1)):
            yield T(Lst([i, i2]), Lst([j, j2], True))


def all_masks(lengths):
    tot = sum(lengths)
    for bits in itertools.product([False, True], repeat=tot):
        m, k = [], 0
        for L in lengths:
            m.append(list(bits[k:k + L]))
            k += L
        yield m


def rand_slice(rng, L):
    b = bounds(L)
    def pick():
        if rng.random() < 0.3:
            return None
        return b[int(rng.integers(1, len(b)))]
    return [pick(), pick(), STEPS[int(rng.integers(0, len(STEPS)))] if rng.random() < 0.6 else None]


def rand_list(rng, L, k=None, oob=0.1):
    if k is None:
        k = int(rng.integers(0, 5)) if rng.random() < 0.9 else 0
    lo, hi = (-(L + 2), L + 3) if rng.random() < oob else (-L, L)
    return [int(x) for x in rng.integers(lo, hi, size=k)]


def rand_part(rng, L):
    u = rng.random()
    if u < 0.25:
        v = int(rng.integers(-(L + 2), L + 3)) if rng.random() < 0.25 else int(rng.integers(-L, L))
        return {'t': 'int', 'v': v, 'np': bool(rng.random() < 0.3)}
    if u < 0.65:
        return S(rand_slice(rng, L))
    return Lst(rand_list(rng, L), arr=bool(rng.random() < 0.5))


def rand_index(rng, lengths):
    n, Lm = len(lengths), max(lengths)
    u = rng.random()
    if u < 0.25:
        return rand_part(rng, n)
    if u < 0.33:
        return {'t': 'mask', 'v': rand_mask(rng, lengths)}
    r = rand_part(rng, n)
    c = rand_part(rng, Lm if rng.random() < 0.7 else min(lengths))
    if r['t'] in ('list', 'arr') and c['t'] in ('list', 'arr'):
        k = len(r['v'])
        c = Lst(rand_list(rng, min(lengths) if rng.random() < 0.7 else Lm, k=k), arr=c['t'] == 'arr')
    return T(r, c)


def rand_mask(rng, lengths):
    p = [0.0, 0.2, 0.5, 0.9, 1.0][int(rng.integers(0, 5))]
    return [[bool(rng.random() < p) for _ in range(L)] for L in lengths]


def rand_array(rng):
    n = int(rng.integers(1, 7))
    if rng.random() < 0.3:
        lengths = [int(rng.integers(1, 7))] * n
    else:
        lengths = [int(x) for x in rng.integers(1, 7, size=n)]
    return {'lengths': lengths, 'width': 2 if rng.random() < 0.3 else 0,
            'dtype': 'int' if rng.random() < 0.5 else 'float',
            'ctor': CTORS[int(rng.integers(0, 4))]}
