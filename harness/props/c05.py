"""C05 - reading a ragged array equals reading the list of its rows."""
import itertools
import numpy as np

RULE = ('random ragged arrays (1..6 rows, lengths 1..6, 30% equal-length, 1-D and (len,2) cells, int/float/bool/int8/float32/object, '
        'ten constructor forms incl. 2-D ndarray, tuples, int32/tuple/list lengths, copy=False, error_checking=False, keywords; '
        'index ndarrays/scalars as int64/int32/int16/uint8/intp, tuple containers, boolean row masks; size-boundary families '
        '(>256 rows, rows >255, >65535 cells, >20000 rows)) x index expressions from the full read grammar (int, slice, list, ndarray, '
        '(int|slice|list, int|slice|list) tuples, ragged boolean mask; bounds -(len+2)..len+2, steps None,+-1,+-2,+-3) '
        '+ where / iteration / flatten / attributes; thorough adds exhaustive enumeration for total size <= 6; '
        'a case is non-trivial when the expected result is a non-empty value; distinct by canonical (array, op, index)')
ASSUMPTIONS = ['the property speaks of the VALUES a read returns: whether a result aliases the internal flat data (a[i] and a[i, s] are views, upstream test_subragged_data_mapping relies on it; every other form returns a copy) is recorded as a tag, not judged; what is judged: a read changes neither the array (_data, lengths, row view) nor the index objects, and the same index object read twice gives the same result',
               'numpy basic/fancy indexing of 1-D arrays and Python list indexing are the reference semantics of the '
               'list-of-rows oracle (Model.PySlice is tied to CPython slice.indices exhaustively each run)',
               'cells are atomic: the model is parametric in the cell type, cell ids stand for cell values',
               'the staged code is compared with the repaired variant of Model.Ragged (getItemV true) on every case']
TRUSTED_EXTRA = ['the Python list-of-rows oracle in harness/props/c05.py (about 60 lines, numpy indexing of 1-D arrays only)']

# the source functions Model.Ragged mirrors (reads only; the writers belong to C06)
MIRRORS = [('enspara/ra/ra.py', ['where', '_convert_from_1d', '_handle_negative_indices', '_convert_from_2d',
                                 '_slice_to_list', 'partition_list', '_row_views', '_get_iis_from_slices',
                                 '_get_iis_from_list', 'RaggedArray.__init__', 'RaggedArray.__getitem__',
                                 'RaggedArray.__len__', 'RaggedArray.shape', 'RaggedArray.size', 'RaggedArray.starts',
                                 'RaggedArray.dtype', 'RaggedArray.flatten'])]

STEPS = [None, 1, 2, 3, -1, -2, -3]
CTORS = ['nested-list', 'nested-array', 'flat-lengths-list', 'flat-lengths-array']

# ----------------------------------------------------------------------------------------------
# building the two sides


NP_DT = {'int': int, 'float': float, 'bool': bool, 'int8': np.int8, 'float32': np.float32, 'object': object}
ROW_CTORS = ('nested-list', 'nested-array', 'nested-tuple', 'ndarray-2d', 'flat-single-row')
FAST_CTORS = ('flat-lengths-array', 'flat-lengths-int32')


def cell_value(k, width, dtype):
    """distinct where the dtype allows it, exact in every dtype"""
    if dtype in ('int', 'object'):
        v = 10 * k + 1
    elif dtype == 'int8':
        v = (k % 120) + 1
    elif dtype == 'bool':
        v = bool((k * k + k // 3) % 2)
    else:
        v = k + 0.5
    if width == 0:
        return v
    if dtype == 'bool':
        return [v, not v]
    if dtype == 'int8':
        return [v, -v]
    return [v, v + 1000]


def build_rows(arr):
    """list of per-row numpy arrays (the specification side) and the flat cell list"""
    lengths, width, dtype = arr['lengths'], arr['width'], arr['dtype']
    np_dt = NP_DT[dtype]
    flat = [cell_value(k, width, dtype) for k in range(sum(lengths))]
    data = np.array(flat, dtype=np_dt).reshape((len(flat),) if width == 0 else (len(flat), width))
    rows, k = [], 0
    for L in lengths:
        rows.append(data[k:k + L].copy())
        k += L
    return rows, flat


def build_ra(arr):
    from enspara import ra
    rows, flat = build_rows(arr)
    ctor = arr['ctor']
    kw = arr.get('kw', 'none')
    extra = {}
    if kw == 'nocheck':
        extra['error_checking'] = False
    if kw == 'copy-false' and ctor.startswith('flat-lengths'):
        extra['copy'] = False
    if ctor == 'nested-list':
        return ra.RaggedArray([r.tolist() for r in rows], **extra)
    if ctor == 'nested-array':
        return ra.RaggedArray([r.copy() for r in rows], **extra)
    if ctor == 'nested-tuple':
        return ra.RaggedArray(tuple(r.copy() for r in rows), **extra)
    if ctor == 'ndarray-2d':
        return ra.RaggedArray(np.stack(rows), **extra)
    data = np.concatenate(rows)
    if ctor == 'flat-single-row':
        return ra.RaggedArray(data, **extra)
    L = arr['lengths']
    lengths = {'flat-lengths-list': lambda: list(L), 'flat-lengths-tuple': lambda: tuple(L),
               'flat-lengths-array': lambda: np.array(L, dtype=int),
               'flat-lengths-int32': lambda: np.array(L, dtype=np.int32),
               'flat-list-lengths-list': lambda: list(L)}[ctor]()
    if ctor == 'flat-list-lengths-list':
        data = data.tolist()
    elif kw == 'strided-data':      # flat data handed over as a non-contiguous view, not copied
        base = np.zeros((2 * len(data),) + data.shape[1:], dtype=data.dtype)
        base[::2] = data
        return ra.RaggedArray(base[::2], lengths=lengths, copy=False)
    if kw == 'keywords':
        return ra.RaggedArray(array=data, lengths=lengths)
    return ra.RaggedArray(data, lengths=lengths, **extra)


IDX_DT = {'int64': np.int64, 'int32': np.int32, 'int16': np.int16, 'int8': np.int8, 'uint8': np.uint8, 'intp': np.intp}


def py_index(idx, mask_ra=None):
    """JSON index description -> the Python object passed to __getitem__"""
    t = idx['t']
    if t == 'int':
        np_t = idx.get('np')
        if not np_t:
            return int(idx['v'])
        return IDX_DT['int64' if np_t is True else np_t](idx['v'])
    if t == 'slice':
        return slice(*idx['v'])
    if t == 'list':
        return tuple(idx['v']) if idx.get('c') == 'tuple' else list(idx['v'])
    if t == 'arr':
        dt = IDX_DT[idx.get('dt', 'int64')]
        if idx.get('view'):      # a reversed, non-contiguous view with the same values
            return np.array(list(idx['v'])[::-1] + [0], dtype=dt)[-2::-1] if len(idx['v']) else np.array([], dtype=dt)
        return np.array(idx['v'], dtype=dt)
    if t == 'boolrows':
        return np.array(idx['v'], dtype=bool)
    if t == 'tuple':
        return (py_index(idx['r']), py_index(idx['c']))
    if t == 'mask':
        return mask_ra
    raise ValueError(t)


def build_mask(arr, m):
    from enspara import ra
    if arr['ctor'] in ROW_CTORS:
        return ra.RaggedArray([np.array(r, dtype=bool) for r in m])
    return ra.RaggedArray(np.array([b for r in m for b in r], dtype=bool),
                          lengths=np.array([len(r) for r in m], dtype=int))


# ----------------------------------------------------------------------------------------------
# the list-of-rows oracle: the property's own words

def _col(row, c):
    t = c['t']
    if t == 'int':
        return row[c['v']]
    if t == 'slice':
        return row[slice(*c['v'])]
    return row[np.array(c['v'], dtype=int)]


def oracle(rows, op, idx):
    """returns (kind, value); kind in rows | arr | cell | pair | attrs.  Raises IndexError like lists/numpy do."""
    if op == 'iter':
        return 'rows', [r for r in rows]
    if op == 'flatten':
        return 'arr', np.concatenate(rows).flatten()
    if op == 'attrs':
        lengths = [len(r) for r in rows]
        starts = [int(x) for x in np.concatenate([[0], np.cumsum(lengths)[:-1]])]
        second = lengths[0] if all(l == lengths[0] for l in lengths) else None
        shape = (len(rows), second) + tuple(rows[0].shape[1:])
        return 'attrs', {'lengths': lengths, 'starts': starts, 'shape': list(shape),
                         'size': int(sum(r.size for r in rows)), 'dtype': str(np.concatenate(rows).dtype),
                         'len': len(rows)}
    if op == 'where':
        m = idx['v']
        rr = [i for i, r in enumerate(m) for b in r if b]
        cc = [j for r in m for j, b in enumerate(r) if b]
        return 'pair', [rr, cc]
    assert op == 'get'
    t = idx['t']
    if t == 'int':
        return 'arr', rows[idx['v']]
    if t == 'slice':
        return 'rows', rows[slice(*idx['v'])]
    if t in ('list', 'arr'):
        return 'rows', [rows[i] for i in idx['v']]
    if t == 'boolrows':
        if len(idx['v']) != len(rows):
            raise IndexError('boolean index did not match')
        return 'rows', [r for r, b in zip(rows, idx['v']) if b]
    if t == 'mask':
        parts = [rows[i][np.array(m, dtype=bool)] for i, m in enumerate(idx['v'])]
        return 'arr', np.concatenate(parts)
    r, c = idx['r'], idx['c']
    rt, ct = r['t'], c['t']
    if rt == 'int':
        row = rows[r['v']]
        return ('cell' if ct == 'int' else 'arr'), _col(row, c)
    if rt == 'slice':
        sel = rows[slice(*r['v'])]
    else:
        sel = [rows[i] for i in r['v']]
    if rt == 'slice' and ct == 'int':
        return 'rows', [x[np.array([c['v']], dtype=int)] for x in sel]
    if ct == 'slice' or rt == 'slice':
        return 'rows', [_col(x, c) for x in sel]
    if ct == 'int':
        return 'arr', np.array([x[c['v']] for x in sel]).reshape((len(sel),) + rows[0].shape[1:])
    rv, cv = list(r['v']), list(c['v'])
    if len(rv) != len(cv):
        # numpy broadcasts a one-element index list against the other one
        if len(cv) == 1:
            cv = cv * len(rv)
        elif len(rv) == 1 and len(cv) > 0:
            rv = rv * len(cv)
        else:
            raise ValueError('unpaired')
    out = [rows[i][j] for i, j in zip(rv, cv)]
    return 'arr', np.array(out).reshape((len(out),) + rows[0].shape[1:])


def canon_expected(kind, val):
    if kind == 'rows':
        return [np.asarray(r).tolist() for r in val]
    if kind in ('arr', 'cell'):
        return np.asarray(val).tolist()
    return val


ERR = {IndexError: 'index-error', ValueError: 'value-error', TypeError: 'type-error'}


def err_kind(e):
    for k, v in ERR.items():
        if isinstance(e, k):
            return v
    return 'other'


def canon_impl(kind, res, cellshape):
    """what the implementation returned, as nested lists; ('bad', why) when the container is of the wrong sort"""
    from enspara import ra
    if kind == 'rows':
        if not isinstance(res, ra.RaggedArray):
            return 'bad', 'expected a RaggedArray, got %s' % type(res).__name__
        rows = [np.asarray(res[i]).tolist() for i in range(len(res))]
        if len(res.lengths) != len(rows) or [int(x) for x in res.lengths] != [len(r) for r in rows]:
            return 'bad', 'result.lengths %s inconsistent with its rows %s' % (list(res.lengths), rows)
        if len(rows) > 0:
            flat = [c for r in rows for c in r]
            if np.asarray(res._data).tolist() != flat:
                return 'bad', 'result._data inconsistent with its rows'
        return 'ok', rows
    if isinstance(res, ra.RaggedArray):
        return 'bad', 'expected an array, got a RaggedArray'
    a = np.asarray(res)
    if kind == 'cell':
        if a.shape == cellshape:
            return 'ok', a.tolist()
        if a.shape == (1,) + cellshape:       # a 1-element array and a scalar are the same value
            return 'ok', np.asarray(a[0]).tolist()
        return 'bad', 'element access returned shape %s' % (a.shape,)
    return 'ok', a.tolist()


def expected_kind(idx):
    t = idx['t']
    if t == 'int':
        return 'arr'
    if t in ('slice', 'list', 'arr', 'boolrows'):
        return 'rows'
    if t == 'mask':
        return 'arr'
    rt, ct = idx['r']['t'], idx['c']['t']
    if rt == 'int':
        return 'cell' if ct == 'int' else 'arr'
    if rt == 'slice' or ct == 'slice':
        return 'rows'
    return 'arr'



# ----------------------------------------------------------------------------------------------
# index grammar

def bounds(L):
    return [None] + list(range(-(L + 2), L + 3))


def all_slices(L):
    return [[a, b, c] for a in bounds(L) for b in bounds(L) for c in STEPS]


REP_SLICES = [[None, None, None], [1, None, None], [None, -1, None], [None, None, 2], [None, None, -1],
              [-1, None, None], [0, 2, None], [-2, None, -1], [1, -1, 2], [5, None, None]]


def small_lists(L):
    """index lists over -(L+1)..L of length 0..2 plus a few longer ones"""
    rng = list(range(-(L + 1), L + 1))
    out = [[]] + [[i] for i in rng] + [[i, j] for i in rng for j in rng]
    out += [list(range(L)), list(range(L - 1, -1, -1)), [0] * 3, [-1, 0, -1]]
    return out


def comps(total):
    if total == 0:
        yield []
        return
    for k in range(1, total + 1):
        for rest in comps(total - k):
            yield [k] + rest


def S(v):
    return {'t': 'slice', 'v': list(v)}


def I(v):
    return {'t': 'int', 'v': int(v)}


def Lst(v, arr=False):
    return {'t': 'arr' if arr else 'list', 'v': [int(x) for x in v]}


def T(r, c):
    return {'t': 'tuple', 'r': r, 'c': c}


def rep_cols(Lm):
    return [S(s) for s in REP_SLICES] + [I(0), I(-1), I(Lm), Lst([0]), Lst([0, -1]), Lst([]), Lst([Lm - 1], True)]


def rep_rows(n):
    return [S(s) for s in REP_SLICES] + [I(0), I(-1), I(n), Lst([0]), Lst([0, -1]), Lst([]), Lst([n - 1], True),
                                         Lst([n])]


def exhaustive_indices(lengths):
    """every 1-D form; for tuples: every row form x representative column forms and vice versa"""
    n, Lm = len(lengths), max(lengths)
    rows_all = [I(i) for i in range(-(n + 2), n + 3)] + [S(s) for s in all_slices(n)] + \
        [Lst(l) for l in small_lists(n)] + [Lst(l, True) for l in small_lists(n)[:12]]
    cols_all = [I(i) for i in range(-(Lm + 2), Lm + 3)] + [S(s) for s in all_slices(Lm)] + \
        [Lst(l) for l in small_lists(Lm)]
    for r in rows_all:
        yield r
    seen = set()
    for r in rows_all:
        for c in rep_cols(Lm):
            if r['t'] in ('list', 'arr') and c['t'] in ('list', 'arr') and len(r['v']) != len(c['v']):
                continue
            k = repr((r, c))
            if k not in seen:
                seen.add(k)
                yield T(r, c)
    for r in rep_rows(n):
        for c in cols_all:
            if r['t'] in ('list', 'arr') and c['t'] in ('list', 'arr') and len(r['v']) != len(c['v']):
                continue
            k = repr((r, c))
            if k not in seen:
                seen.add(k)
                yield T(r, c)
    # paired lists of equal length up to 2 over all in/out-of-range positions
    rr = list(range(-(n + 1), n + 1))
    cc = list(range(-(Lm + 1), Lm + 1))
    for i in rr:
        for j in cc:
            yield T(Lst([i]), Lst([j]))
    for i, i2 in itertools.product(rr, rr):
        for j, j2 in ((0, 0), (0, -1), (-1, 0), (Lm - 1, 0), (min(lengths), -min(lengths)), (-Lm, 1)):
            yield T(Lst([i, i2]), Lst([j, j2], True))
        for j in cc:                       # one-element column list broadcast over two rows, and the converse
            yield T(Lst([i, i2]), Lst([j]))
    for i in rr:
        for j, j2 in itertools.product(cc, cc):
            yield T(Lst([i], True), Lst([j, j2]))


def all_masks(lengths):
    tot = sum(lengths)
    for bits in itertools.product([False, True], repeat=tot):
        m, k = [], 0
        for L in lengths:
            m.append(list(bits[k:k + L]))
            k += L
        yield m


def rand_slice(rng, L):
    b = bounds(L)
    def pick():
        if rng.random() < 0.3:
            return None
        return b[int(rng.integers(1, len(b)))]
    return [pick(), pick(), STEPS[int(rng.integers(0, len(STEPS)))] if rng.random() < 0.6 else None]


def rand_list(rng, L, k=None, oob=0.1):
    if k is None:
        k = int(rng.integers(0, 5)) if rng.random() < 0.9 else 0
    lo, hi = (-(L + 2), L + 3) if rng.random() < oob else (-L, L)
    return [int(x) for x in rng.integers(lo, hi, size=k)]


SCALAR_DT = ['int64', 'int32', 'int16', 'int8', 'intp']


def rand_part(rng, L, in_tuple=True):
    u = rng.random()
    if u < 0.25:
        v = int(rng.integers(-(L + 2), L + 3)) if rng.random() < 0.25 else int(rng.integers(-L, L))
        p = {'t': 'int', 'v': v, 'np': False}
        w = rng.random()
        if w < 0.4:
            p['np'] = SCALAR_DT[int(rng.integers(0, len(SCALAR_DT)))]
        elif w < 0.5 and v >= 0:
            p['np'] = 'uint8'
        return p
    if u < 0.65:
        return S(rand_slice(rng, L))
    p = Lst(rand_list(rng, L), arr=bool(rng.random() < 0.5))
    if p['t'] == 'arr':
        w = rng.random()
        if w < 0.5:
            p['dt'] = ['int32', 'int16', 'int8', 'intp'][int(rng.integers(0, 4))]
        elif w < 0.7 and all(x >= 0 for x in p['v']):
            p['dt'] = 'uint8'
        if rng.random() < 0.2:
            p['view'] = True
    elif in_tuple and rng.random() < 0.25:
        p['c'] = 'tuple'          # a tuple as a component of the 2-D index
    return p


def rand_index(rng, lengths):
    n, Lm = len(lengths), max(lengths)
    u = rng.random()
    if u < 0.22:
        return rand_part(rng, n, in_tuple=False)
    if u < 0.25:
        p = [0.0, 0.3, 0.7, 1.0][int(rng.integers(0, 4))]
        return {'t': 'boolrows', 'v': [bool(rng.random() < p) for _ in range(n)]}
    if u < 0.33:
        return {'t': 'mask', 'v': rand_mask(rng, lengths)}
    r = rand_part(rng, n)
    c = rand_part(rng, Lm if rng.random() < 0.7 else min(lengths))
    if r['t'] in ('list', 'arr') and c['t'] in ('list', 'arr') and rng.random() < 0.25:
        # one side is a one-element list: broadcast against the other
        if rng.random() < 0.6 or len(c['v']) == 0:
            c = dict(c, v=rand_list(rng, min(lengths), k=1))
        else:
            r = dict(r, v=rand_list(rng, n, k=1))
        for q in (r, c):
            if q.get('dt') == 'uint8' and any(x < 0 for x in q['v']):
                q['dt'] = 'int32'
        return T(r, c)
    if r['t'] in ('list', 'arr') and c['t'] in ('list', 'arr'):
        k = len(r['v'])
        c2 = Lst(rand_list(rng, min(lengths) if rng.random() < 0.7 else Lm, k=k), arr=c['t'] == 'arr')
        if c.get('dt') and (c['dt'] != 'uint8' or all(x >= 0 for x in c2['v'])):
            c2['dt'] = c['dt']
        if c.get('c'):
            c2['c'] = c['c']
        c = c2
    return T(r, c)


def rand_mask(rng, lengths):
    p = [0.0, 0.2, 0.5, 0.9, 1.0][int(rng.integers(0, 5))]
    return [[bool(rng.random() < p) for _ in range(L)] for L in lengths]


ALL_CTORS = CTORS + ['nested-tuple', 'ndarray-2d', 'flat-lengths-tuple', 'flat-lengths-int32',
                     'flat-list-lengths-list', 'flat-single-row']


def rand_array(rng):
    n = int(rng.integers(1, 7))
    if rng.random() < 0.3:
        lengths = [int(rng.integers(1, 7))] * n
    else:
        lengths = [int(x) for x in rng.integers(1, 7, size=n)]
    equal = len(set(lengths)) == 1
    u = rng.random()
    if u < 0.6:
        ctor = CTORS[int(rng.integers(0, 4))]
    else:
        ok = [c for c in ALL_CTORS if (c != 'ndarray-2d' or equal) and c != 'flat-single-row']
        ctor = ok[int(rng.integers(0, len(ok)))]
    # data dtype: the containers that hand Python scalars to numpy only carry the default dtypes
    v = rng.random()
    if v < 0.7 or ctor in ('nested-list', 'flat-list-lengths-list'):
        dtype = 'int' if rng.random() < 0.5 else ('float' if v < 0.9 else 'bool')
    else:
        dtype = ['bool', 'int8', 'float32', 'object'][int(rng.integers(0, 4))]
    kw = 'none'
    if rng.random() < 0.2:
        kw = ['nocheck', 'copy-false', 'keywords', 'strided-data'][int(rng.integers(0, 4))]
        if kw in ('keywords', 'strided-data') and not ctor.startswith('flat-l'):
            kw = 'nocheck'
    arr = {'lengths': lengths, 'width': 2 if rng.random() < 0.3 else 0, 'dtype': dtype, 'ctor': ctor}
    if n == 1 and arr['width'] == 0 and rng.random() < 0.3 and ctor.startswith('flat'):
        arr['ctor'] = 'flat-single-row'       # RaggedArray(flat) without lengths: one row
    if kw != 'none':
        arr['kw'] = kw
    return arr


# ----------------------------------------------------------------------------------------------
# size boundaries: more than 255/256 rows, rows longer than 255, more than 65535 cells, more than 20000 rows
# (error checking switched off by __init__); index values beyond the range of narrow integer dtypes

def big_families(rng, thorough):
    """(arr, [(op, idx)], use_model)"""
    fams = []
    full = S([None, None, None])

    def reads(lengths, extra=()):
        n, Lm = len(lengths), max(lengths)
        long_row = int(np.argmax(lengths))
        out = [('attrs', None), ('flatten', None)]
        rr = sorted(set(x for x in (0, 1, 127, 128, 254, 255, 256, 257, n - 2, n - 1) if 0 <= x < n))
        cc = sorted(set(x for x in (0, 127, 128, 254, 255, 256, 257, Lm - 1) if 0 <= x < Lm))
        for r in rr[-4:]:
            out.append(('get', I(r)))
            out.append(('get', T(I(r), I(-1))))
            out.append(('get', T(I(r), S([None, None, -3]))))
        out.append(('get', I(n)))
        out.append(('get', I(-n)))
        out.append(('get', T(I(long_row), I(Lm))))          # one past the end of the longest row
        out.append(('get', T(I(long_row), I(Lm - 1))))
        out.append(('get', S([max(0, n - 300), None, 7])))
        out.append(('get', {'t': 'arr', 'v': rr, 'dt': 'int32'}))
        out.append(('get', {'t': 'arr', 'v': rr[::-1], 'dt': 'intp'}))
        if n - 1 <= 255:
            out.append(('get', {'t': 'arr', 'v': rr, 'dt': 'uint8'}))
        out.append(('get', T(S([None, None, max(1, n // 5)]), S([-2, None, None]))))
        out.append(('get', T(S([-3, None, None]), S([None, None, -1]))))
        out.append(('get', T(full, I(0))))
        out.append(('get', T({'t': 'arr', 'v': rr, 'dt': 'int32'}, S([None, 3, None]))))
        out.append(('get', T(I(long_row), {'t': 'arr', 'v': cc, 'dt': 'int32'})))
        out.append(('get', T(I(long_row), {'t': 'arr', 'v': [-x - 1 for x in cc], 'dt': 'int16' if Lm < 30000 else 'int32'})))
        if Lm > 127:
            out.append(('get', T(I(long_row), {'t': 'arr', 'v': [-1, -2, -100, -128], 'dt': 'int8'})))
            out.append(('get', T({'t': 'arr', 'v': [long_row] * 2, 'dt': 'int32'}, {'t': 'arr', 'v': [-1, -127], 'dt': 'int8'})))
        if n > 127:
            out.append(('get', T({'t': 'arr', 'v': [-1, -2, -128], 'dt': 'int8'}, I(0))))
            out.append(('get', T({'t': 'arr', 'v': [-1, 5], 'dt': 'int8'}, Lst([0, 0]))))
            out.append(('get', {'t': 'arr', 'v': [-1, -128, 127], 'dt': 'int8'}))
            out.append(('get', T({'t': 'arr', 'v': [-1, -128], 'dt': 'int8'}, S([None, 1, None]))))
        if n > 32767:
            out.append(('get', T({'t': 'arr', 'v': [-1, -2], 'dt': 'int16'}, I(0))))
        if Lm > 32767:
            out.append(('get', T(I(long_row), {'t': 'arr', 'v': [-1, -2], 'dt': 'int16'})))
        pr = [rr[-1], long_row, rr[0], long_row]
        pc = [lengths[rr[-1]] - 1, Lm - 1, 0, -Lm]
        out.append(('get', T({'t': 'arr', 'v': pr, 'dt': 'int32'}, {'t': 'arr', 'v': pc, 'dt': 'int32'})))
        out.append(('get', T(Lst(pr), Lst(pc))))
        # a mask whose True cells lie far apart (last cell of the array included)
        m = [[False] * L for L in lengths]
        m[0][0] = True
        m[-1][-1] = True
        m[long_row][Lm - 1] = True
        m[long_row][Lm // 2] = True
        out.append(('where', {'t': 'mask', 'v': m}))
        out.append(('get', {'t': 'mask', 'v': m}))
        return out + list(extra)

    def arr_of(lengths, ctor, dtype='int', width=0):
        return {'lengths': [int(x) for x in lengths], 'width': width, 'dtype': dtype, 'ctor': ctor}

    # > 256 rows
    L = [int(x) for x in rng.integers(1, 4, size=300)]
    fams.append((arr_of(L, 'flat-lengths-array'), reads(L) + [('iter', None)], True, 'rows>256'))
    fams.append((arr_of(L, 'nested-array', 'float'), reads(L), True, 'rows>256'))
    fams.append((arr_of([2] * 260, 'flat-lengths-int32', 'int8'), reads([2] * 260), True, 'rows>256'))
    # rows longer than 255 / 256
    L = [300, 1, 257, 256, 255]
    fams.append((arr_of(L, 'flat-lengths-list'), reads(L) + [('iter', None)], True, 'row-length>255'))
    fams.append((arr_of([258] * 3, 'flat-lengths-array', 'float32', 2), reads([258] * 3), True, 'row-length>255'))
    # > 65535 cells
    L = [40000, 30000, 5]
    fams.append((arr_of(L, 'flat-lengths-array'), reads(L), False, 'cells>65535'))
    L = [250] * 280
    fams.append((arr_of(L, 'flat-lengths-array'), reads(L), False, 'cells>65535'))
    if thorough:
        L = [int(x) for x in rng.integers(200, 300, size=300)]
        fams.append((arr_of(L, 'nested-array'), reads(L), False, 'cells>65535'))
        L = [int(x) for x in rng.integers(1, 6, size=1000)]
        fams.append((arr_of(L, 'flat-lengths-list', 'float'), reads(L) + [('iter', None)], True, 'rows>256'))
    # > 20000 rows: __init__ skips _ensure_ragged_data
    L = [1 + (i % 2) for i in range(20001)]
    fams.append((arr_of(L, 'nested-array'), reads(L), False, 'rows>20000'))
    fams.append((arr_of(L, 'flat-lengths-array'), reads(L), False, 'rows>20000'))
    return fams


# ----------------------------------------------------------------------------------------------
# input classes the tree got wrong before the repair (fix: commit applying C05-ra-reads.diff); now tags only,
# so that the evidence shows these regions are exercised

K_ROWSTEP = 'getitem-2d-row-slice-negative-step'
K_ROWOOR = 'getitem-2d-row-slice-bound-out-of-range'
K_COLSTART = 'getitem-2d-col-slice-negative-start'
K_COLSTEP = 'getitem-2d-col-slice-negative-step'
K_NOROWS = 'getitem-2d-no-rows-selected'
K_EMPTYROW = 'getitem-2d-col-slice-empties-a-row'
K_EMPTYLIST = 'getitem-2d-empty-index-list-or-all-false-mask'
K_RECT = 'rect-fastpath-multidim-cells'
# two more input classes, repaired by commit 82d78c9 (C05-paired-broadcast-narrow-int.diff); tags only, like the others
K_BCAST = 'getitem-paired-one-element-column-list'
K_NARROW = 'getitem-narrow-int-index-overflow'
DT_MAX = {'int8': 127, 'int16': 32767}


def repaired_later_classes(arr, op, idx):
    """one-element column list against a longer row list; narrow-int index arrays whose negative entries used to
    overflow (computed from the input alone; only used to tag the evidence)"""
    keys = []
    if op == 'get' and idx['t'] == 'tuple':
        r, c = idx['r'], idx['c']
        if r['t'] in ('list', 'arr') and c['t'] in ('list', 'arr') and len(c['v']) == 1 and len(r['v']) != 1:
            keys.append(K_BCAST)
        if r['t'] != 'slice' and c['t'] != 'slice':
            n, Lm = len(arr['lengths']), max(arr['lengths'])
            for p, size in ((r, n), (c, Lm)):
                if p['t'] == 'arr' and p.get('dt') in DT_MAX and any(v < 0 for v in p['v']) and size > DT_MAX[p['dt']]:
                    keys.append(K_NARROW)
                    break
    return keys



def is_fast(arr):
    L = arr['lengths']
    return arr['ctor'] in FAST_CTORS and all(x == L[0] for x in L)


def result_fast(idx, mresp):
    """the returned RaggedArray is built from ndarray lengths that are all equal (lengths as the code
    computes them = the model's answer)"""
    if idx is None or idx['t'] != 'tuple' or mresp is None:
        return False
    r, c = idx['r'], idx['c']
    if c['t'] != 'slice' or r['t'] == 'int':
        return False
    v = mresp.get('ok')
    if not isinstance(v, dict) or v.get('k') != 'rows':
        return False
    lens = v['lengths']
    return len(lens) > 0 and all(x == lens[0] for x in lens)


def rect_class(arr, op, idx, mresp):
    """reads that go through a row view built by reshape(-1, L) of multi-dimensional cells"""
    if arr['width'] == 0:
        return False
    if is_fast(arr):
        if op in ('iter', 'attrs'):
            return True
        if op == 'get':
            t = idx['t']
            if t in ('int', 'slice', 'list', 'arr'):
                return True
            if t == 'tuple' and idx['r']['t'] == 'int' and idx['c']['t'] == 'slice':
                return True
    return op == 'get' and result_fast(idx, mresp)


def finding_keys(arr, op, idx, mresp=None, rows=None):
    """all known-finding classes the input belongs to, in priority order"""
    keys = []
    if op == 'get' and idx['t'] == 'tuple':
        n = len(arr['lengths'])
        r, c = idx['r'], idx['c']
        if rows is None:
            rows, _ = build_rows(arr)
        sel = None
        if r['t'] == 'slice':
            a, b, s = r['v']
            if s is not None and s < 0:
                keys.append(K_ROWSTEP)
            if any(v is not None and not (-n <= v <= n) for v in (a, b)):
                keys.append(K_ROWOOR)
            sel = rows[slice(a, b, s)]
        elif r['t'] in ('list', 'arr'):
            try:
                sel = [rows[i] for i in r['v']]
            except IndexError:
                sel = None
        if c['t'] == 'slice' and r['t'] != 'int':
            a, b, s = c['v']
            if a is not None and a < 0:
                keys.append(K_COLSTART)
            if s is not None and s < 0:
                keys.append(K_COLSTEP)
        if sel is not None and len(sel) == 0 and (r['t'] == 'slice' or c['t'] == 'slice'):
            keys.append(K_NOROWS)
        if sel is not None and c['t'] == 'slice' and any(len(x[slice(*c['v'])]) == 0 for x in sel):
            keys.append(K_EMPTYROW)
        if (c['t'] in ('list', 'arr') and len(c['v']) == 0) or (r['t'] in ('list', 'arr') and len(r['v']) == 0):
            keys.append(K_EMPTYLIST)
    if op == 'get' and idx['t'] == 'mask' and not any(b for row in idx['v'] for b in row):
        keys.append(K_EMPTYLIST)
    if rect_class(arr, op, idx, mresp):
        keys.append(K_RECT)
    return keys


# ----------------------------------------------------------------------------------------------
# model side

def strip(idx):
    """the index as the model sees it: containers and integer dtypes do not matter, a boolean row mask is the list
    of the positions of its True entries"""
    if idx is None:
        return None
    if idx['t'] == 'tuple':
        return {'t': 'tuple', 'r': strip(idx['r']), 'c': strip(idx['c'])}
    if idx['t'] == 'boolrows':
        return {'t': 'arr', 'v': [i for i, b in enumerate(idx['v']) if b]}
    return {k: v for k, v in idx.items() if k not in ('np', 'dt', 'c', 'nd', 'view')}


def probe_repaired(ctx):
    """Reads the tree before the repair got wrong (one per former finding class).  The staged code is held to the
    repaired model variant (`getItemV true`) without exception: a probe that no longer behaves like the list of rows
    is a regression and is reported as a violation like any other wrong read (no key, never excused)."""
    a = {'lengths': [3, 2], 'width': 0, 'dtype': 'int', 'ctor': 'flat-lengths-array'}
    d = {'lengths': [2, 2], 'width': 2, 'dtype': 'int', 'ctor': 'flat-lengths-array'}
    full = S([None, None, None])
    probes = [(a, 'get', T(full, S([-1, None, None]))), (a, 'get', T(S([None, None, -1]), full)),
              (a, 'get', T(S([0, 5, None]), I(0))), (a, 'get', T(S([0, 0, None]), full)),
              (a, 'get', T(full, S([2, None, None]))), (a, 'get', T(I(0), Lst([]))),
              (a, 'get', {'t': 'mask', 'v': [[False] * 3, [False] * 2]}),
              (d, 'iter', None), (d, 'get', T(full, S([0, 1, None])))]
    before = len(ctx.violations)
    for arr, op, idx in probes:
        resp = ctx.driver([model_request(arr, op, idx)])[0]
        judge(ctx, Impl(arr), op, idx, resp)
    ctx.tag('regression-probe', len(probes))
    ctx.note('code_variant', {'held_to': 'repaired (getItemV true)', 'probes': len(probes),
                              'probes_failing': len(ctx.violations) - before})


def model_request(arr, op, idx):
    return {'op': 'C05.' + op, 'lengths': arr['lengths'], 'fast': is_fast(arr), 'fixed': True,
            'ctor': 'rows' if arr['ctor'] in ROW_CTORS else 'flat', 'idx': strip(idx)}


def model_canon(arr, op, idx, resp, flat):
    """model answer with cell ids replaced by the cell values, in the canonical form of run_impl"""
    if 'error' in resp:
        return {'error': resp['error']}
    v = resp['ok']
    if op == 'iter':
        return {'ok': [[flat[k] for k in r] for r in v]}
    if op == 'flatten':
        out = [flat[k] for k in v]
        if arr['width']:
            out = [x for c in out for x in c]
        return {'ok': out}
    if op == 'where':
        return {'ok': v}
    if op == 'attrs':
        w = arr['width']
        return {'ok': {'lengths': v['lengths'], 'starts': v['starts'], 'shape': v['shape'] + ([w] if w else []),
                       'size': v['size'] * (w or 1), 'len': v['len']}}
    if v['k'] == 'rows':
        return {'ok': [[flat[k] for k in r] for r in v['v']]}
    out = [flat[k] for k in v['v']]
    if expected_kind(idx) == 'cell' and len(out) == 1:
        return {'ok': out[0]}
    return {'ok': out}


class Impl:
    """one real RaggedArray, reused for many reads; every read is followed by a no-modification check"""

    def __init__(self, arr):
        self.arr = arr
        self.rows, self.flat = build_rows(arr)
        self.cellshape = tuple(self.rows[0].shape[1:])
        try:
            self.a = build_ra(arr)
            self.snap = self._snap()
            self.ctor_error = None
        except Exception as e:  # noqa
            self.a = None
            self.ctor_error = {'error': err_kind(e), 'exc': type(e).__name__}

    def _snap(self):
        a = self.a
        rows = a._array
        if isinstance(rows, np.ndarray) and rows.dtype != object:
            view = rows.tobytes()
        else:
            try:
                view = (tuple(len(r) for r in rows), np.concatenate(list(rows)).tobytes() if len(rows) else b'')
            except Exception:  # noqa
                view = b'|'.join(np.asarray(r).tobytes() for r in rows)
        return (a._data.tobytes(), a.lengths.tobytes(), len(rows), view)

    def run(self, op, idx, twice=False):
        from enspara import ra
        if self.ctor_error:
            return dict(self.ctor_error)
        a = self.a
        alias = None
        try:
            if op == 'iter':
                res = ('ok', [np.asarray(x).tolist() for x in a])
            elif op == 'flatten':
                res = ('ok', np.asarray(a.flatten()).tolist())
            elif op == 'attrs':
                sh = a.shape
                res = ('ok', {'lengths': [int(x) for x in a.lengths], 'starts': [int(x) for x in a.starts],
                              'shape': [None if x is None else int(x) for x in sh], 'size': int(a.size),
                              'dtype': str(a.dtype), 'len': len(a)})
            elif op == 'where':
                if idx.get('nd'):
                    w = ra.where(np.array(idx['v'], dtype=bool))      # plain ndarray: falls back to np.where
                else:
                    w = ra.where(build_mask(self.arr, idx['v']))
                if len(w) == 2:
                    res = ('ok', [[int(x) for x in w[0]], [int(x) for x in w[1]]])
                else:
                    res = ('bad', 'where returned %d arrays' % len(w))
            else:
                mask = build_mask(self.arr, idx['v']) if idx['t'] == 'mask' else None
                pyidx = py_index(idx, mask)
                before = _idx_bytes(pyidx)
                out = a[pyidx]
                if _idx_bytes(pyidx) != before:
                    res = ('bad', 'the read modified the index object')
                else:
                    res = canon_impl(expected_kind(idx), out, self.cellshape)
                    if isinstance(out, np.ndarray):
                        alias = bool(np.shares_memory(out, a._data))
                    if twice and res[0] == 'ok':
                        # same array, same index OBJECT, second call
                        res2 = canon_impl(expected_kind(idx), a[pyidx], self.cellshape)
                        if res2 != res:
                            res = ('bad', 'reading twice with the same index object gave %r then %r' % (res[1], res2[1]))
        except Exception as e:  # noqa
            res = None
            err = {'error': err_kind(e), 'exc': type(e).__name__}
        if self._snap() != self.snap:
            return {'bad': 'the read modified the array'}
        if res is None:
            return err
        out = {res[0]: res[1]}
        if alias is not None:
            out['alias'] = alias
        return out


def _idx_bytes(x):
    if isinstance(x, tuple):
        return tuple(_idx_bytes(y) for y in x)
    if isinstance(x, list):
        return repr(x)
    if isinstance(x, np.ndarray):
        return x.tobytes()
    if hasattr(x, '_data'):
        return x._data.tobytes()
    return repr(x)


def run_oracle_rows(rows, op, idx):
    try:
        kind, val = oracle(rows, op, idx)
    except IndexError:
        return {'error': 'index-error'}
    return {'ok': canon_expected(kind, val)}


def _part_tags(p):
    out = []
    if p['t'] == 'arr':
        out.append('index-ndarray-' + p.get('dt', 'int64'))
        if p.get('view'):
            out.append('index-ndarray-reversed-view')
    if p['t'] == 'int' and p.get('np'):
        out.append('index-scalar-' + ('int64' if p['np'] is True else p['np']))
    if p['t'] == 'list' and p.get('c') == 'tuple':
        out.append('index-tuple-container')
    return out


def idx_tags(op, idx):
    if op != 'get':
        return ['op=' + op + ('-ndarray' if idx and idx.get('nd') else '')]
    t = idx['t']
    if t != 'tuple':
        return ['get[%s]' % t] + _part_tags(idx)
    tags = ['get[%s,%s]' % (idx['r']['t'], idx['c']['t'])] + _part_tags(idx['r']) + _part_tags(idx['c'])
    for nm, p in (('row', idx['r']), ('col', idx['c'])):
        if p['t'] == 'slice':
            a, b, s = p['v']
            if s is not None and s < 0:
                tags.append(nm + '-step<0')
            if (a is not None and a < 0) or (b is not None and b < 0):
                tags.append(nm + '-negative-bound')
        elif p['t'] == 'int' and p['v'] < 0:
            tags.append(nm + '-negative-int')
    return tags


def judge(ctx, impl, op, idx, mresp, record=True, extra_tags=(), twice=True):
    """evaluate the predicate on the real output, then compare the model with the real output
    (mresp None = family too large for the model: predicate only)"""
    arr = impl.arr
    o = run_oracle_rows(impl.rows, op, idx)
    i = impl.run(op, idx, twice=twice)
    alias = i.pop('alias', None)
    if op == 'attrs' and 'ok' in i:
        # dtype is compared with the oracle only (cells are abstract in the model)
        dt = i['ok'].pop('dtype')
        odt = o['ok'].pop('dtype')
        if dt != odt:
            ctx.violation('dtype attribute %s != dtype of the rows %s' % (dt, odt), {'arr': arr, 'op': op, 'idx': idx})
    elif op == 'attrs':
        o['ok'].pop('dtype')
    case = {'arr': arr, 'op': op, 'idx': idx}
    keys = finding_keys(arr, op, idx, mresp, impl.rows)
    if 'error' in o:
        holds = 'error' in i
    else:
        holds = 'ok' in i and i['ok'] == o['ok']
    if record:
        nontrivial = 'ok' in o and o['ok'] not in ([], None)
        tags = idx_tags(op, idx) + ['width=%d' % arr['width'], 'ctor=' + arr['ctor'], 'dtype=' + arr['dtype'],
                                    'rows=%d' % len(arr['lengths']),
                                    'equal-lengths' if len(set(arr['lengths'])) == 1 else 'unequal-lengths',
                                    'expect-error' if 'error' in o else 'expect-value']
        if 'error' in i:
            tags.append('impl-' + i['error'])
        if alias is not None:
            # recorded, not judged: the property speaks of the values returned (see ASSUMPTIONS)
            tags.append('result-is-view-of-data' if alias else 'result-is-copy')
        if op == 'get' and twice:
            tags.append('read-twice-same-index-object')
        tags += list(extra_tags)
        if arr.get('kw', 'none') != 'none':
            tags.append('ctor-kw=' + arr['kw'])
        for k in keys:
            tags.append('formerly-failing-class:' + k)
        for k in repaired_later_classes(arr, op, idx):
            tags.append('formerly-failing-class:' + k)
        ctx.case(case, nontrivial=nontrivial, tags=tags)
    else:
        ctx.evaluations += 1
    if not holds:
        if 'error' in o:
            what = 'access outside a row/array returned %r instead of raising' % (i,)
        else:
            what = 'read differs from the same read on the list of rows: got %r, expected %r' % (i, o['ok'])
        # nothing is excused: the input classes earlier trees got wrong are tags only
        ctx.violation(what[:600], dict(case, got=i, expected=o), key=None)
    # correspondence with the model (repaired variant)
    if mresp is None:
        ctx.skip('model-skipped-large-array')
        return
    m = model_canon(arr, op, idx, mresp, impl.flat)
    ii = {k: v for k, v in i.items() if k != 'exc'}
    if m != ii:
        if holds:
            ctx.disagreement('Model.Ragged vs RaggedArray (%s)' % op, dict(case, model=m, impl=i))
        # when the predicate fails the violation has already been reported


def slice_scope(ctx):
    reqs, exp = [], []
    vals = [None] + list(range(-8, 9))
    for n in range(0, 7):
        for a, b, c in itertools.product(vals, vals, STEPS):
            reqs.append({'op': 'C05.slice', 'len': n, 'v': [a, b, c]})
            exp.append(list(range(*slice(a, b, c).indices(n))))
    resp = ctx.driver(reqs)
    bad = 0
    for rq, e, r in zip(reqs, exp, resp):
        if r.get('ok') != e:
            bad += 1
            if bad <= 3:
                ctx.disagreement('Model.PySlice.indices vs CPython slice.indices', dict(rq, model=r, cpython=e))
    ctx.tag('slice-scope', len(reqs))
    ctx.evaluations += len(reqs)
    ctx.note('slice_scope_exhaustive', {'n_max': 6, 'cases': len(reqs), 'mismatches': bad})


def run_batch(ctx, batch, record=True, twice=True):
    """batch: list of (arr, [(op, idx), …])"""
    reqs = [model_request(arr, op, idx) for arr, cases in batch for op, idx in cases]
    resp = ctx.driver(reqs)
    k = 0
    for arr, cases in batch:
        impl = Impl(arr)
        for op, idx in cases:
            judge(ctx, impl, op, idx, resp[k], record=record, twice=twice)
            k += 1


FIXED_OPS = [('iter', None), ('flatten', None), ('attrs', None)]


def run(ctx):
    rng = ctx.rng
    probe_repaired(ctx)
    slice_scope(ctx)
    # random arrays x random index expressions
    batch = []
    for _ in range(ctx.n(1500, 30000)):
        arr = rand_array(rng)
        cases = list(FIXED_OPS)
        cases.append(('where', {'t': 'mask', 'v': rand_mask(rng, arr['lengths'])}))
        if len(set(arr['lengths'])) == 1 and rng.random() < 0.5:
            cases.append(('where', {'t': 'mask', 'v': rand_mask(rng, arr['lengths']), 'nd': True}))
        for _ in range(8):
            cases.append(('get', rand_index(rng, arr['lengths'])))
        batch.append((arr, cases))
        if len(batch) >= 2000:
            run_batch(ctx, batch)
            batch = []
    run_batch(ctx, batch)
    # size boundaries
    import logging
    ralog = logging.getLogger('enspara.ra.ra')
    lvl = ralog.level
    ralog.setLevel(logging.ERROR)      # "error checking is turned off ..." for > 20000 rows is expected here
    for arr, cases, use_model, tag in big_families(rng, ctx.thorough):
        impl = Impl(arr)
        resp = ctx.driver([model_request(arr, op, idx) for op, idx in cases]) if use_model else [None] * len(cases)
        for (op, idx), r in zip(cases, resp):
            judge(ctx, impl, op, idx, r, extra_tags=('size:' + tag,))
    ralog.setLevel(lvl)
    # exhaustive small scope
    maxtot = ctx.n(3, 6)
    variants = [(w, d, c) for w in (0, 2) for d in ('int', 'float') for c in CTORS]
    k = int(rng.integers(0, len(variants)))
    nex = 0
    for total in range(1, maxtot + 1):
        for lengths in comps(total):
            w, d, c = variants[k % len(variants)]
            k += 5
            # the slice arithmetic does not depend on the variant: one full enumeration per lengths
            # vector, rotating the variant; the 1-D cell / ndarray-lengths variant every time for size <= 4
            todo = [{'lengths': lengths, 'width': w, 'dtype': d, 'ctor': c}]
            if total <= 4 and (w, c) != (0, 'flat-lengths-array'):
                todo.append({'lengths': lengths, 'width': 0, 'dtype': 'int', 'ctor': 'flat-lengths-array'})
            for arr in todo:
                cases = [('get', i) for i in exhaustive_indices(lengths)]
                cases += [('get', {'t': 'mask', 'v': m}) for m in all_masks(lengths)]
                cases += [('where', {'t': 'mask', 'v': m}) for m in all_masks(lengths)]
                cases += FIXED_OPS
                nex += len(cases)
                for j in range(0, len(cases), 20000):
                    run_batch(ctx, [(arr, cases[j:j + 20000])], record=(total <= 3), twice=False)
    ctx.tag('exhaustive-small-scope', nex)
    ctx.note('exhaustive_scope', {'total_size_max': maxtot, 'cases': nex})


def replay(ctx, data):
    if data.get('op') == 'C05.slice':
        r = ctx.driver([{k: data[k] for k in ('op', 'len', 'v')}])[0]
        e = list(range(*slice(*data['v']).indices(data['len'])))
        if r.get('ok') != e:
            ctx.disagreement('Model.PySlice.indices vs CPython slice.indices', data)
        return
    arr, op, idx = data['arr'], data['op'], data.get('idx')
    resp = ctx.driver([model_request(arr, op, idx)])[0]
    judge(ctx, Impl(arr), op, idx, resp)
