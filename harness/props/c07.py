"""C07 - committors and mean first-passage times satisfy their first-step equations.

Real code driven: enspara.tpt.committors, enspara.tpt.mfpts (sink sets and all-pairs),
enspara.tpt.core._I_m_Q.  Every real output is judged by the property's own words in plain
numpy (first-step residuals, boundary values, bounds, column-vs-single-sink, lag linearity,
dense-vs-sparse, input snapshots) and compared with the exact rational values of the Lean model
(Model/Tpt.lean through the compiled driver, certified exact solver Model/LinSolveT.lean).
"""
import itertools
from fractions import Fraction as F

import numpy as np

RULE = ('random irreducible row-stochastic chains with small-denominator rational entries, 3..10 states: '
        'reversible (symmetric integer weights), non-reversible (integer counts + Hamiltonian cycle), '
        'dyadic (entries k/16, exact in binary64), periodic cycles, zero/non-zero diagonals; '
        'source/sink sets: ALL disjoint non-empty pairs with sizes <= 3 for small n, random pairs for larger n, '
        'given in shuffled order as list / ndarray / scalar; containers ndarray + the 7 scipy *_matrix formats; '
        'lag in {1, 2.5, 10} (+ 1e-6, 1e6); populations given (ndarray/list/tuple/float32) or computed. Edge families: '
        'metastable / nearly uncoupled chains, 2-state chains, banded chains with 257..300 states (index ids > 255, model skipped), '
        'entries ~1e-13 next to O(1), self-transition 1-1e-6 / 1-1e-9, slowly evolving chains I+2^-k(T-I) k<=40 (exact in binary), '
        'symmetric chains with one rate off by a relative 1e-5..1e-9 (held to 1e-12), a source adjacent only to a sink, sources+sinks = all states '
        'but one (set sizes > 3), every sink id below every source id in unsorted order, index arguments as '
        'list/tuple/range/python int/numpy scalar/int8/uint8/int16/uint16/int32/int64 arrays, tprob as C/Fortran/negative-stride/'
        'float32/np.matrix, keyword vs positional call, the SAME argument objects reused across consecutive calls. '
        'A case is non-trivial when it has at least one '
        'intermediate state (committors) / at least one non-sink state (mfpts); distinct by canonical input')
ASSUMPTIONS = [
    'the numerical solvers (SuperLU spsolve, LAPACK gesv/getri, eig) meet their contracts up to rounding: '
    'checked on every case by the first-step residuals of the real outputs (<= 1e-9 relative to the table scale)',
    'binary64 rounding of the rational inputs (relative 1e-16) moves the exact solution by far less than the 1e-9 tolerance '
    'on these small, well-conditioned chains',
]
TRUSTED_EXTRA = ['Model/LinSolveT.lean elimination is untrusted: its result is used only after the exact residual certificate A X = B (proved sound: solve_sound)']

MIRRORS = [('enspara/tpt/core.py', None)]

CONTAINERS = ['bsr_matrix', 'coo_matrix', 'csc_matrix', 'csr_matrix', 'dia_matrix', 'dok_matrix', 'lil_matrix']
LAGS = [[1, 1], [5, 2], [10, 1]]
TOL0 = 1e-9
TIGHT0 = 1e-12


# ----------------------------------------------------------------------------- generators

def _fr(x):
    return [int(x.numerator), int(x.denominator)]


def _normalise_rows(C):
    n = len(C)
    return [[F(int(C[i][j]), int(sum(C[i]))) for j in range(n)] for i in range(n)]


def gen_chain(rng, n, kind):
    """returns T as n x n list of Fractions (irreducible by construction)"""
    if kind == 'rev':
        C = np.zeros((n, n), dtype=int)
        dens = rng.choice([0.3, 0.6, 1.0])
        for i in range(n):
            for j in range(i, n):
                if rng.random() < dens:
                    C[i, j] = C[j, i] = int(rng.integers(1, 6))
        perm = rng.permutation(n)           # spanning path keeps it connected
        for a, b in zip(perm[:-1], perm[1:]):
            if C[a, b] == 0:
                C[a, b] = C[b, a] = int(rng.integers(1, 6))
        return _normalise_rows(C.tolist())
    if kind == 'nonrev':
        C = np.zeros((n, n), dtype=int)
        dens = rng.choice([0.25, 0.5, 1.0])
        for i in range(n):
            for j in range(n):
                if rng.random() < dens:
                    C[i, j] = int(rng.integers(1, 7))
        perm = rng.permutation(n)           # Hamiltonian cycle keeps it irreducible
        for a, b in zip(perm, np.roll(perm, -1)):
            if C[a, b] == 0:
                C[a, b] = int(rng.integers(1, 7))
        return _normalise_rows(C.tolist())
    if kind == 'dyadic':
        # entries k/16: exactly representable, rows sum to exactly 1 in binary64
        perm = rng.permutation(n)
        nxt = {int(a): int(b) for a, b in zip(perm, np.roll(perm, -1))}
        T = []
        for i in range(n):
            k = int(rng.integers(1, min(n, 5) + 1))
            supp = {nxt[i]} | set(int(x) for x in rng.choice(n, size=k, replace=False))
            supp = sorted(supp)
            w = np.ones(len(supp), dtype=int)
            for _ in range(16 - len(supp)):
                w[int(rng.integers(0, len(supp)))] += 1
            row = [F(0)] * n
            for s, x in zip(supp, w):
                row[s] = F(int(x), 16)
            T.append(row)
        return T
    if kind == 'cycle':
        # periodic: a pure directed cycle with one chord pair (still irreducible, zero diagonal)
        perm = [int(x) for x in rng.permutation(n)]
        C = np.zeros((n, n), dtype=int)
        for a, b in zip(perm, perm[1:] + perm[:1]):
            C[a, b] = int(rng.integers(1, 4))
        a, b = (int(x) for x in rng.choice(n, size=2, replace=False))
        C[a, b] += int(rng.integers(1, 4))
        return _normalise_rows(C.tolist())
    if kind in ('meta-rev', 'meta-nonrev'):
        return gen_metastable(rng, kind == 'meta-rev')
    if kind == 'sticky':
        return gen_sticky(rng, n)
    if kind in ('tiny-rev', 'tiny-nonrev'):
        return gen_tiny(rng, n, kind == 'tiny-rev')
    if kind == 'rev-dyadic':
        return gen_rev_dyadic(rng, n)
    raise ValueError(kind)


def gen_metastable(rng, reversible, n_max=8):
    """two or three well-connected basins joined by rarely crossed barriers: in-basin weights are
    (1..5) * 10^k, barrier weights 1..9, k in 4..7 -> barrier/in-basin ratio about 10^U(-7,-4), spectral gap
    of that order.  Integer weights, so T = C / rowsum(C) is exact rational and (reversible case) the
    stationary vector is rowsum(C) / sum(C) in closed form.  State labels are shuffled."""
    nb = 2 if rng.random() < 0.7 else 3
    sizes = [int(rng.integers(2, 5)) for _ in range(nb)]
    while sum(sizes) > n_max:
        sizes[int(np.argmax(sizes))] -= 1
    n = sum(sizes)
    k = int(rng.choice([4, 5, 5, 6, 6, 7]))
    S = 10 ** k
    starts = np.cumsum([0] + sizes)
    C = [[0] * n for _ in range(n)]
    for b in range(nb):
        idx = list(range(starts[b], starts[b + 1]))
        for i in idx:
            for j in idx:
                if reversible and j < i:
                    continue
                if rng.random() < 0.8 or (not reversible and idx[(idx.index(i) + 1) % len(idx)] == j) \
                        or (reversible and j == i + 1):
                    w = int(rng.integers(1, 6)) * S
                    C[i][j] = w
                    if reversible:
                        C[j][i] = w
    for b in range(nb - 1):
        A = list(range(starts[b], starts[b + 1]))
        B = list(range(starts[b + 1], starts[b + 2]))
        for _ in range(int(rng.integers(1, 3))):
            i, j = int(rng.choice(A)), int(rng.choice(B))
            C[i][j] = int(rng.integers(1, 10))
            C[j][i] = C[i][j] if reversible else int(rng.integers(1, 10))
    perm = [int(x) for x in rng.permutation(n)]
    C = [[C[perm[i]][perm[j]] for j in range(n)] for i in range(n)]
    return _normalise_rows(C)


def gen_banded(rng, n):
    """reversible banded chain (neighbours +-1, +-2, self) with integer symmetric weights; returns (T, pi) exact"""
    C = [[0] * n for _ in range(n)]
    for i in range(n):
        C[i][i] = int(rng.integers(0, 4))
        if i + 1 < n:
            C[i][i + 1] = C[i + 1][i] = int(rng.integers(1, 6))
        if i + 2 < n and rng.random() < 0.5:
            C[i][i + 2] = C[i + 2][i] = int(rng.integers(1, 6))
    tot = sum(sum(r) for r in C)
    return _normalise_rows(C), [F(sum(r), tot) for r in C]


def _shuffle(rng, C):
    n = len(C)
    perm = [int(x) for x in rng.permutation(n)]
    inv = [0] * n
    for new, old in enumerate(perm):
        inv[old] = new
    return [[C[perm[i]][perm[j]] for j in range(n)] for i in range(n)], inv


def _rev_weights(rng, n, scale=1):
    C = np.zeros((n, n), dtype=object)
    for i in range(n):
        for j in range(i, n):
            if rng.random() < 0.6:
                C[i, j] = C[j, i] = int(rng.integers(1, 6)) * scale
    perm = rng.permutation(n)
    for a, b in zip(perm[:-1], perm[1:]):
        if C[a, b] == 0:
            C[a, b] = C[b, a] = int(rng.integers(1, 6)) * scale
    return [[int(x) for x in row] for row in C]


def gen_pendant(rng, n):
    """reversible chain in which state s is adjacent ONLY to state k (no self-loop half of the time);
    returns (T, s, k) after shuffling the labels"""
    C = _rev_weights(rng, n - 1)
    k = int(rng.integers(0, n - 1))
    C = [row + [0] for row in C] + [[0] * n]
    C[n - 1][k] = C[k][n - 1] = int(rng.integers(1, 6))
    if rng.random() < 0.5:
        C[n - 1][n - 1] = int(rng.integers(1, 4))
    C, inv = _shuffle(rng, C)
    return _normalise_rows(C), inv[n - 1], inv[k]


def gen_sticky(rng, n):
    """reversible chain with one or two states whose self-transition probability is 1 - O(1e-6) or 1 - O(1e-9)"""
    C = _rev_weights(rng, n)
    for i in rng.choice(n, size=int(rng.integers(1, 3)), replace=False):
        C[int(i)][int(i)] = int(rng.integers(1, 6)) * 10 ** int(rng.choice([6, 9]))
    return _normalise_rows(C)


def gen_tiny(rng, n, reversible):
    """well connected chain with weights (1..5)e12 plus a few extra edges of weight 1: transition probabilities
    ~1e-13 next to O(1) ones, ordinary spectral gap"""
    S = 10 ** 12
    if reversible:
        C = _rev_weights(rng, n, S)
    else:
        C = [[0] * n for _ in range(n)]
        for i in range(n):
            for j in range(n):
                if rng.random() < 0.5:
                    C[i][j] = int(rng.integers(1, 6)) * S
        perm = [int(x) for x in rng.permutation(n)]
        for a, b in zip(perm, perm[1:] + perm[:1]):
            if C[a][b] == 0:
                C[a][b] = int(rng.integers(1, 6)) * S
    zeros = [(i, j) for i in range(n) for j in range(n) if C[i][j] == 0 and (not reversible or i <= j)]
    for idx in rng.permutation(len(zeros))[:3]:
        i, j = zeros[int(idx)]
        C[i][j] = 1
        if reversible:
            C[j][i] = 1
    return _normalise_rows(C)


def gen_wells(rng, k, lazy=None):
    """two or three wells with internally SYMMETRIC kinetics (entries m/32), consecutive wells joined by one asymmetric
    link: T[a,b] = r 2^-k, T[b,a] = 2^-k (r in {2, 3, 4}).  Reversible; the stationary weight of a state of well w is the
    product of the ratios r on the way to it, uniform inside a well - known in closed form.  Every column sums to 1 up to
    (r-1) 2^-k, so for k >= 34 the matrix is 'numerically doubly stochastic' although its stationary vector is not
    uniform.  With lazy=j the chain is I + 2^-j (T - I) (use a moderate k then).  All entries exact in binary64.
    Returns (T, pi, wells) with shuffled labels."""
    nw = 2 if rng.random() < 0.7 else 3
    sizes = [int(rng.integers(2, 5)) for _ in range(nw)]
    n = sum(sizes)
    starts = np.cumsum([0] + sizes)
    T = [[F(0)] * n for _ in range(n)]
    for w in range(nw):
        idx = list(range(starts[w], starts[w + 1]))
        for a in idx:
            for b in idx:
                if a < b and (rng.random() < 0.8 or b == a + 1):
                    T[a][b] = T[b][a] = F(int(rng.integers(1, 5)), 32)
    weight = [F(1)] * n
    wt = F(1)
    for w in range(nw - 1):
        a = int(rng.integers(starts[w], starts[w + 1]))
        b = int(rng.integers(starts[w + 1], starts[w + 2]))
        r = int(rng.choice([2, 3, 4]))
        T[a][b] = F(r, 2 ** k)
        T[b][a] = F(1, 2 ** k)
        wt *= r
        for i in range(starts[w + 1], starts[w + 2]):
            weight[i] = wt
    for i in range(n):
        T[i][i] = 1 - sum(T[i][j] for j in range(n) if j != i)
    if lazy is not None:
        e = F(1, 2 ** lazy)
        T = [[(1 if i == j else 0) + e * (T[i][j] - (1 if i == j else 0)) for j in range(n)] for i in range(n)]
    perm = [int(x) for x in rng.permutation(n)]
    T = [[T[perm[i]][perm[j]] for j in range(n)] for i in range(n)]
    tot = sum(weight)
    pi = [weight[perm[i]] / tot for i in range(n)]
    well_of = [int(np.searchsorted(starts, perm[i], side='right') - 1) for i in range(n)]
    return T, pi, well_of


def gen_lazy(rng, n, k):
    """slowly evolving chain T = I + 2^-k (T0 - I), T0 non-symmetric with entries m/16: every entry is exact in binary64
    (k <= 48), the stationary vector is that of T0 and every passage time is 2^k times that of T0.  For k >= 26 all
    off-diagonal entries are below 1e-8, i.e. T is 'numerically symmetric' for absolute-tolerance comparisons."""
    T0 = gen_chain(rng, n, 'dyadic')
    e = F(1, 2 ** k)
    return [[(1 if i == j else 0) + e * (T0[i][j] - (1 if i == j else 0)) for j in range(n)] for i in range(n)]


def gen_nearsym(rng, n, p):
    """symmetric doubly-stochastic chain (entries m/32, uniform stationary vector) with ONE rate raised by 2^-p
    (relative 1e-5 .. 1e-9) and the same amount taken from another entry of that row: exact in binary64, no longer
    symmetric, stationary vector no longer uniform (by O(2^-p))"""
    T = gen_rev_dyadic(rng, n)
    d = F(1, 2 ** p)
    cand = [(i, j) for i in range(n) for j in range(n) if i != j and T[i][j] > 0]
    i, j = cand[int(rng.integers(0, len(cand)))]
    donors = [l for l in range(n) if l != j and T[i][l] > d]
    l = i if i in donors else donors[int(rng.integers(0, len(donors)))]
    T[i][j] += d
    T[i][l] -= d
    return T


def gen_rev_dyadic(rng, n):
    """symmetric doubly-stochastic chain with entries k/32 (exact in float32 and float64): uniform stationary vector"""
    C = np.zeros((n, n), dtype=int)
    cyc = [int(x) for x in rng.permutation(n)]
    w = [1, 1, 1, 1]
    for _ in range(12):
        w[int(rng.integers(0, 4))] += 1          # weights sum to 16
    for i in range(n):                             # an n-cycle keeps the chain irreducible
        C[cyc[i], cyc[(i + 1) % n]] += w[0]
    for wk in w[1:]:
        P = [int(x) for x in rng.permutation(n)]
        for i in range(n):
            C[i, P[i]] += wk
    C = C + C.T                                    # symmetric, every row sums to 32
    return [[F(int(C[i][j]), 32) for j in range(n)] for i in range(n)]


def exact_pi_reversible(T):
    """stationary vector of a reversible chain recovered exactly by detailed balance along a spanning tree"""
    n = len(T)
    w = [None] * n
    w[0] = F(1)
    stack = [0]
    while stack:
        i = stack.pop()
        for j in range(n):
            if w[j] is None and T[i][j] != 0 and T[j][i] != 0:
                w[j] = w[i] * T[i][j] / T[j][i]
                stack.append(j)
    tot = sum(w)
    return [x / tot for x in w]


def cond_factor(Tf):
    """how much looser than 1e-9 a comparison may be on a slowly mixing chain: the library's own eq_probs /
    inverse / solves lose about 1/gap digits (gap = distance of the second eigenvalue from 1).  1 for ordinary
    chains (gap >= 1e-3), 1e-3/gap otherwise.  A wrong formula gives O(1) relative errors, far above this."""
    d = np.sort(np.abs(1.0 - np.linalg.eigvals(Tf)))
    gap = float(d[1]) if len(d) > 1 else 1.0
    return max(1.0, 1e-3 / max(gap, 1e-12)), gap


def stickiness(Tf):
    """smallest exit probability 1 - T_ii.  binary64 stores T_ii = 1 - e with absolute error 1e-16, i.e. the exit rate e
    with RELATIVE error 1e-16/e: the float chain differs from the rational one (and from an exactly stochastic one) by that
    much, so comparisons with exact values and the [0,1] bound get an allowance 1e-14/e (nothing for ordinary chains)"""
    return max(float(np.min(1.0 - np.diag(Tf))), 1e-16)


def pi_min(Tf):
    """order of magnitude of the smallest stationary probability (float solve of pi (I-T) = 0, sum pi = 1): the library's
    eq_probs (LAPACK eig) has ABSOLUTE accuracy ~1e-16, i.e. relative accuracy ~1e-16/pi_j on a rarely visited state j"""
    n = Tf.shape[0]
    A = (np.eye(n) - Tf).T
    A[-1, :] = 1.0
    rhs = np.zeros(n)
    rhs[-1] = 1.0
    try:
        p = np.linalg.solve(A, rhs)
    except np.linalg.LinAlgError:
        return 1e-16
    return max(float(np.min(np.abs(p))), 1e-16)


def is_reversible_pi(T, pi):
    n = len(T)
    return all(pi[i] * T[i][j] == pi[j] * T[j][i] for i in range(n) for j in range(n))


def all_set_pairs(n, maxsize=3):
    out = []
    states = range(n)
    for a in range(1, maxsize + 1):
        for A in itertools.combinations(states, a):
            rest = [s for s in states if s not in A]
            for b in range(1, maxsize + 1):
                for B in itertools.combinations(rest, b):
                    out.append((list(A), list(B)))
    return out


def random_set_pair(rng, n, maxsize=3, need_free=0):
    while True:
        a = int(rng.integers(1, maxsize + 1))
        b = int(rng.integers(1, maxsize + 1))
        if a + b + need_free <= n:
            break
    p = [int(x) for x in rng.permutation(n)]
    return p[:a], p[a:a + b]          # shuffled order on purpose


# ----------------------------------------------------------------------------- plumbing

def t_json(T):
    return [[_fr(x) for x in row] for row in T]


def t_from_json(J):
    return [[F(a, b) for a, b in row] for row in J]


def t_float(T):
    return np.array([[x.numerator / x.denominator for x in row] for row in T], dtype=float)


DENSE_VARIANTS = ['fortran', 'revview', 'npmatrix', 'float32']


def to_container(Tf, name):
    if name == 'ndarray':
        return np.array(Tf, copy=True)
    if name == 'fortran':
        return np.asfortranarray(Tf)
    if name == 'revview':           # negative strides in both axes, same values
        return np.ascontiguousarray(Tf[::-1, ::-1])[::-1, ::-1]
    if name == 'npmatrix':
        return np.matrix(Tf)
    if name == 'float32':           # only used for chains whose entries are exact in float32
        X = Tf.astype(np.float32)
        assert np.array_equal(X.astype(float), Tf)
        return X
    import scipy.sparse as sp
    return getattr(sp, name)(Tf)


def case_T(case):
    """exact T of a case: sent explicitly, or regenerated from its recipe (large chains)"""
    if 'T' in case:
        return t_from_json(case['T'])
    g = case['Tgen']
    assert g['family'] == 'banded'
    return gen_banded(np.random.default_rng(g['seed']), g['n'])[0]


def case_id(case):
    return {'T': case['T']} if 'T' in case else {'Tgen': case['Tgen']}


def dense_variant(case_kind, i):
    v = DENSE_VARIANTS[i % 4]
    if v == 'float32' and case_kind not in ('dyadic', 'rev-dyadic'):
        v = DENSE_VARIANTS[(i // 4) % 3]
    return v


def snap(x):
    """byte-level snapshot of an argument (content + representation)"""
    import scipy.sparse as sp
    if x is None:
        return None
    if isinstance(x, np.ndarray):
        return ('nd', x.dtype.str, x.shape, x.tobytes())
    if sp.issparse(x):
        fmt = x.format
        parts = [fmt, x.shape, x.dtype.str]
        if fmt in ('csr', 'csc', 'bsr'):
            parts += [x.data.tobytes(), x.indices.tobytes(), x.indptr.tobytes()]
        elif fmt == 'coo':
            parts += [x.data.tobytes(), x.row.tobytes(), x.col.tobytes()]
        elif fmt == 'dia':
            parts += [x.data.tobytes(), x.offsets.tobytes()]
        elif fmt == 'dok':
            parts += [sorted((tuple(int(i) for i in k), float(v)) for k, v in x.items())]
        elif fmt == 'lil':
            parts += [[list(r) for r in x.rows], [list(d) for d in x.data]]
        parts.append(x.toarray().tobytes())
        return tuple(parts)
    if isinstance(x, (list, tuple)):
        return ('seq', type(x).__name__, tuple(x))
    if isinstance(x, range):
        return ('range', x.start, x.stop, x.step)
    if isinstance(x, np.generic):
        return ('npscalar', x.dtype.str, x.tobytes())
    return ('scalar', type(x).__name__, x)


INT_DTYPES = {'int8': np.int8, 'uint8': np.uint8, 'int16': np.int16, 'uint16': np.uint16, 'int32': np.int32}


def as_arg(states, form):
    """the same state set in the requested representation (falls back to a wide one when it cannot hold the ids)"""
    states = [int(x) for x in states]
    if form == 'list':
        return list(states)
    if form == 'ndarray':
        return np.array(states, dtype=np.int64)
    if form == 'tuple':
        return tuple(states)
    if form in INT_DTYPES:
        dt = INT_DTYPES[form]
        if max(states) <= np.iinfo(dt).max:
            return np.array(states, dtype=dt)
        return np.array(states, dtype=np.int32)
    if form == 'scalar' and len(states) == 1:
        return int(states[0])
    if form == 'npscalar' and len(states) == 1:
        return np.int16(states[0]) if states[0] % 2 else np.int64(states[0])
    if form == 'range' and states == list(range(states[0], states[0] + len(states))):
        return range(states[0], states[0] + len(states))
    if form in ('scalar', 'npscalar', 'range'):
        return tuple(states)
    return list(states)


POPFORMS = ['given', 'given-list', 'given-tuple', 'given-f32']


def pops_arg(pi, form):
    """(argument, float64 values the code will effectively use)"""
    if form == 'none':
        return None, np.asarray(pi, dtype=float)
    if form == 'given-list':
        return [float(x) for x in pi], np.asarray(pi, dtype=float)
    if form == 'given-tuple':
        return tuple(float(x) for x in pi), np.asarray(pi, dtype=float)
    if form == 'given-f32':
        a = np.asarray(pi, dtype=np.float32)
        return a, a.astype(float)
    return np.array(pi, dtype=float), np.asarray(pi, dtype=float)


def order_tags(src, snk):
    tags = []
    if list(src) != sorted(src) or list(snk) != sorted(snk):
        tags.append('order=unsorted')
    if max(snk) < min(src):
        tags.append('order=every-sink-id-below-every-source-id')
    elif min(snk) < max(src):
        tags.append('order=some-sink-id-below-a-source-id')
    return tags


def fr_vec(resp):
    return np.array([a / b for a, b in resp], dtype=float)


def fr_mat(resp):
    return np.array([[a / b for a, b in row] for row in resp], dtype=float)


def call(fn, *a, **k):
    """run real code; RuntimeWarnings are kept silent, exceptions reported as a value"""
    import warnings
    try:
        with warnings.catch_warnings():
            warnings.simplefilter('ignore')
            return {'ok': fn(*a, **k)}
    except Exception as e:  # noqa
        return {'error': '%s: %s' % (type(e).__name__, str(e)[:200])}


# ----------------------------------------------------------------------------- committors

def committor_requests(case):
    if not case.get('model', True):
        return []
    return [{'op': 'C07.committors', 'T': case['T'], 'sources': case['sources'], 'sinks': case['sinks']},
            {'op': 'C07.imq', 'T': case['T'], 'absorbing': case['sources'] + case['sinks']}]


def check_committors(ctx, case, resp):
    from enspara import tpt
    from enspara.tpt import core
    T = case_T(case)
    n = len(T)
    Tf = t_float(T)
    src, snk = case['sources'], case['sinks']
    inter = [i for i in range(n) if i not in src and i not in snk]
    fac, gap = cond_factor(Tf)
    # committor accuracy of LU on the absorbing chain: |dq| <~ 1.6e-16/gap observed, bound 5e-15/gap
    stick = stickiness(Tf)
    TOL, TIGHT = TOL0 * fac, TIGHT0 + 5e-15 / gap + 1e-14 / stick
    QTOL = TOL0 + 5e-15 / gap + 1e-14 / stick
    if stick < 1e-3:
        ctx.tag('committors sticky-state exit<1e-%d' % int(np.floor(-np.log10(stick))))
    if fac > 1:
        ctx.tag('committors slow-mixing gap<1e-%d' % int(np.floor(-np.log10(gap))))
    kw = case.get('callstyle') == 'kw'
    ctx.case(dict(case_id(case), sources=src, sinks=snk), nontrivial=len(inter) > 0,
             tags=['committors', 'kind=' + case['kind'], 'n=%d' % n if n <= 10 else 'n>255' if n > 255 else 'n>10',
                   'nsrc=%d' % min(len(src), 4), 'nsnk=%d' % min(len(snk), 4),
                   'no-intermediate' if not inter else 'one-intermediate' if len(inter) == 1 else 'has-intermediate',
                   'argform=' + case['argform'], 'mode=' + case.get('mode', '?'),
                   'call=keyword' if kw else 'call=positional'] + order_tags(src, snk))

    def run_one(X, a_src, a_snk):
        if kw:
            return call(tpt.committors, tprob=X, sources=a_src, sinks=a_snk)
        return call(tpt.committors, X, a_src, a_snk)

    results = {}
    for cont in ['ndarray'] + case['containers']:
        X = to_container(Tf, cont)
        a_src, a_snk = as_arg(src, case['argform']), as_arg(snk, case.get('argform_sinks', case['argform']))
        before = (snap(X), snap(a_src), snap(a_snk))
        r = run_one(X, a_src, a_snk)
        ctx.tag('container=' + cont)
        if 'error' in r:
            ctx.violation('tpt.committors raised %s (%s)' % (r['error'], cont), dict(case, failing=cont))
            return
        if (snap(X), snap(a_src), snap(a_snk)) != before:
            ctx.violation('tpt.committors modified its inputs (%s)' % cont, dict(case, failing=cont))
            return
        q = np.asarray(r['ok'], dtype=float)
        if q.shape != (n,):
            ctx.violation('committors shape %s != (%d,) (%s)' % (q.shape, n, cont), dict(case, failing=cont))
            return
        results[cont] = q
        # the property's words, on the real output
        if not np.all(np.isfinite(q)):
            ctx.violation('committors not finite (%s)' % cont, dict(case, failing=cont))
            return
        if np.any(np.abs(q[src]) > TIGHT0):
            ctx.violation('committor not 0 on a source (%s)' % cont, dict(case, failing=cont, got=q.tolist()[:40]))
            return
        if np.any(np.abs(q[snk] - 1.0) > TIGHT0):
            ctx.violation('committor not 1 on a sink (%s)' % cont, dict(case, failing=cont, got=q.tolist()[:40]))
            return
        if np.any(q < -TIGHT) or np.any(q > 1 + TIGHT):
            ctx.violation('committor outside [0,1] (%s)' % cont, dict(case, failing=cont, got=q.tolist()[:40]))
            return
        if inter:
            res = q[inter] - Tf[inter] @ q
            if np.max(np.abs(res)) > TOL:
                ctx.violation('committor first-step residual %.3g at an intermediate state (%s)'
                              % (np.max(np.abs(res)), cont), dict(case, failing=cont, got=q.tolist()[:40]))
                return
        # the SAME argument objects used again (and by mfpts in between): same answer, still unchanged
        if case.get('reuse'):
            ctx.tag('reuse-same-objects container=' + cont)
            r_mid = call(tpt.mfpts, X, sinks=a_snk)
            r2 = run_one(X, a_src, a_snk)
            if 'error' in r_mid or 'error' in r2:
                ctx.violation('second call on the same argument objects raised %s (%s)'
                              % (r_mid.get('error') or r2.get('error'), cont), dict(case, failing=cont))
                return
            if (snap(X), snap(a_src), snap(a_snk)) != before:
                ctx.violation('inputs modified after committors -> mfpts -> committors on the same objects (%s)' % cont,
                              dict(case, failing=cont))
                return
            if not np.array_equal(np.asarray(r2['ok'], dtype=float), q):
                ctx.violation('committors differ when called again with the same argument objects (%s)' % cont,
                              dict(case, failing=cont))
                return
    dense = results['ndarray']
    for cont, q in results.items():
        if np.max(np.abs(q - dense)) > TOL:
            ctx.violation('committors differ between ndarray and %s input' % cont,
                          dict(case, failing=cont, dense=dense.tolist()[:40], other=q.tolist()[:40]))
            return
    # model vs real
    if not case.get('model', True):
        ctx.tag('model-skipped-large-n')
        return
    mq, mimq = resp
    if 'ok' not in mq:
        ctx.disagreement('Model Tpt.committors returned %s where tpt.committors succeeded' % mq,
                         dict(case, model=mq))
        return
    qm = fr_vec(mq['ok'])
    if np.max(np.abs(qm - dense)) > QTOL:
        ctx.disagreement('Model Tpt.committors vs tpt.committors differ by %.3g' % np.max(np.abs(qm - dense)),
                         dict(case, model=qm.tolist(), impl=dense.tolist()))
        return
    # _I_m_Q differential (internal building block named by the property's anchors)
    ab = np.append(np.array(src, dtype=int), np.array(snk, dtype=int))
    r = call(core._I_m_Q, np.array(Tf, copy=True), ab, n_states=n)
    if 'ok' in r and 'ok' in mimq:
        if np.max(np.abs(np.asarray(r['ok']) - fr_mat(mimq['ok']))) > 1e-15:
            ctx.disagreement('Model Tpt.ImQ vs core._I_m_Q', dict(case, model=mimq))
    else:
        ctx.disagreement('core._I_m_Q / Model ImQ failed: %s %s' % (r.get('error'), mimq.get('error')), case)


# ----------------------------------------------------------------------------- mfpts

def mfpt_requests(case):
    if not case.get('model', True):
        return []
    reqs = [{'op': 'C07.eq_probs', 'T': case['T']}]
    for lag in case['lags']:
        reqs.append({'op': 'C07.mfpts_all', 'T': case['T'], 'lag': lag})
    for S in case['sink_sets']:
        reqs.append({'op': 'C07.mfpts_sinks', 'T': case['T'], 'sinks': S['sinks'], 'lag': S['lag']})
    return reqs


def _scale(m, lagf=1.0):
    """natural scale of a table of passage times: its largest entry, at least one lag time"""
    return max(lagf, float(np.max(np.abs(m))))


def check_mfpts(ctx, case, resp):
    from enspara import tpt
    T = case_T(case)
    n = len(T)
    Tf = t_float(T)
    lags = case['lags']
    use_model = case.get('model', True)
    fac, gap = cond_factor(Tf)
    if fac > 1:
        ctx.tag('mfpts slow-mixing gap<1e-%d' % int(np.floor(-np.log10(gap))))
    # well-conditioned exact-in-binary families are held to 1e-12 (the clean code delivers ~2e-15 there): an error of
    # relative 1e-9 in the populations must not pass
    TOL0 = 1e-12 if case.get('tight') else globals()['TOL0']
    pmin = pi_min(Tf)
    if 1e-3 / pmin > fac:       # column j of the table is ~ 1/pi_j: computed populations are relative-accurate to
        fac = 1e-3 / pmin       # ~1.5e-14/pi_j (observed), allowed 1e-12/pi_j
        ctx.tag('mfpts rare-state pi_min<1e-%d' % int(np.floor(-np.log10(pmin))))
    TOL, TIGHT = TOL0 * fac, TIGHT0
    MTOL = TOL + 1e-14 / stickiness(Tf)          # comparisons with the exact rational chain
    ctx.case(dict(case_id(case), sink_sets=case['sink_sets'], lags=lags), nontrivial=True,
             tags=['mfpts', 'kind=' + case['kind'], 'n=%d' % n if n <= 10 else 'n>255' if n > 255 else 'n>10',
                   'mode=' + case.get('mode', 'generic')])
    if use_model:
        m_pi = resp[0]
        if 'ok' not in m_pi:
            ctx.disagreement('Model eqProbs failed on an irreducible chain: %s' % m_pi, case)
            return
        pi_exact = fr_vec(m_pi['ok'])
        resp_all = resp[1:1 + len(lags)]
        resp_sinks = resp[1 + len(lags):]
    else:
        ctx.tag('model-skipped-large-n')
        pi_exact = np.array([float(x) for x in exact_pi_reversible(T)])   # reversible families only
        resp_all = [None] * len(lags)
        resp_sinks = [None] * len(case['sink_sets'])
    popform = case.get('popform', 'given')

    def ptol(form, cont='ndarray'):
        # float32 populations are stationary only to 6e-8, and a float32 tprob makes the library's own eq_probs
        # single precision: the all-pairs equations then hold to that accuracy only
        return max(TOL, 1e-5) if (form == 'given-f32' or cont == 'float32') else TOL

    def fail(what, **extra):
        ctx.violation(what, dict(case, **extra))

    # ---- all pairs
    base = None          # dense, first lag, populations=None
    tables = {}
    for li, lag in enumerate(lags):
        lagf = lag[0] / lag[1]
        for cont in ['ndarray'] + case['containers']:
            for pops in ('none', popform):
                if cont != 'ndarray' and pops != 'none' and li != 0:
                    continue
                X = to_container(Tf, cont)
                p, _ = pops_arg(pi_exact, pops)
                before = (snap(X), snap(p))
                r = call(tpt.mfpts, X, populations=p, lagtime=lagf)
                ctx.tag('mfpts-all container=' + cont)
                ctx.tag('mfpts-all lag=%g' % lagf)
                ctx.tag('mfpts-all pops=' + pops)
                where = dict(failing='all-pairs', container=cont, lag=lag, pops=pops)
                if 'error' in r:
                    return fail('tpt.mfpts (all pairs) raised %s' % r['error'], **where)
                if (snap(X), snap(p)) != before:
                    return fail('tpt.mfpts (all pairs) modified its inputs', **where)
                m = np.asarray(r['ok'], dtype=float)
                if m.shape != (n, n) or not np.all(np.isfinite(m)):
                    return fail('all-pairs mfpts: bad shape/non-finite %s' % (m.shape,), **where)
                sc = _scale(m, lagf)
                if np.max(np.abs(np.diag(m))) > TIGHT * sc:
                    return fail('all-pairs mfpts: diagonal not 0', **where)
                # first-step: m_ij = lag + sum_k T_ik m_kj for i != j
                res = m - lagf - Tf @ m
                np.fill_diagonal(res, 0.0)
                if np.max(np.abs(res)) > ptol(pops, cont) * sc:
                    return fail('all-pairs mfpts: first-step residual %.3g (scale %.3g)' % (np.max(np.abs(res)), sc),
                                **where)
                tables[(li, cont, pops)] = m
                if li == 0 and cont == 'ndarray' and pops == 'none':
                    base, base_lag = m, lagf
                if case.get('reuse') and li == 0:
                    ctx.tag('reuse-same-objects mfpts')
                    r2 = call(tpt.mfpts, X, populations=p, lagtime=lagf)
                    if 'error' in r2 or not np.array_equal(np.asarray(r2['ok'], dtype=float), m) \
                            or (snap(X), snap(p)) != before:
                        return fail('mfpts differs / inputs changed when called again with the same objects', **where)
        dense = tables[(li, 'ndarray', 'none')]
        sc = _scale(dense, lagf)
        for (l2, cont, pops), m in tables.items():
            if l2 == li and np.max(np.abs(m - dense)) > ptol(pops, cont) * sc:
                return fail('all-pairs mfpts differ between ndarray/populations=None and %s/populations=%s' % (cont, pops),
                            failing='all-pairs', container=cont, lag=lag, pops=pops)
        # linear in the lag
        if np.max(np.abs(dense - (lagf / base_lag) * base)) > TOL0 * sc:
            return fail('all-pairs mfpts not linear in the lag time', failing='all-pairs', lag=lag)
        if use_model:
            mm = resp_all[li]
            if 'ok' not in mm:
                ctx.disagreement('Model mfptsAll returned %s' % mm, dict(case, lag=lag))
                return
            if np.max(np.abs(fr_mat(mm['ok']) - dense)) > MTOL * sc:
                ctx.disagreement('Model Tpt.mfptsAll vs tpt.mfpts differ by %.3g (lag %s)'
                                 % (np.max(np.abs(fr_mat(mm['ok']) - dense)), lag), dict(case, lag=lag))
                return

    # ---- sink sets (the first n entries of sink_sets are the singletons {j} unless the chain is large)
    for S, ms in zip(case['sink_sets'], resp_sinks):
        snk, lag = S['sinks'], S['lag']
        lagf = lag[0] / lag[1]
        free = [i for i in range(n) if i not in snk]
        results = {}
        for cont in ['ndarray'] + S['containers']:
            X = to_container(Tf, cont)
            a_snk = as_arg(snk, S['argform'])
            p, _ = pops_arg(pi_exact, S['pops'])
            before = (snap(X), snap(a_snk), snap(p))
            if S.get('callstyle') == 'positional':
                r = call(tpt.mfpts, X, a_snk, p, lagf)
            else:
                r = call(tpt.mfpts, X, sinks=a_snk, populations=p, lagtime=lagf)
            ctx.tag('mfpts-sinks container=' + cont)
            where = dict(failing='sinks', sinks=snk, container=cont, lag=lag)
            if 'error' in r:
                return fail('tpt.mfpts(sinks=...) raised %s' % r['error'], **where)
            if (snap(X), snap(a_snk), snap(p)) != before:
                return fail('tpt.mfpts(sinks=...) modified its inputs', **where)
            t = np.asarray(r['ok'], dtype=float)
            if t.shape != (n,) or not np.all(np.isfinite(t)):
                return fail('mfpts(sinks): bad shape/non-finite %s' % (t.shape,), **where)
            sc = _scale(t, lagf)
            if np.max(np.abs(t[snk])) > TIGHT * sc:
                return fail('mfpts(sinks): not 0 on a sink', **where)
            if free:
                res = t[free] - lagf - Tf[free] @ t
                if np.max(np.abs(res)) > TOL * sc:
                    return fail('mfpts(sinks): first-step residual %.3g (scale %.3g)' % (np.max(np.abs(res)), sc),
                                **where)
            results[cont] = t
        for tg in ('nsnk=%d' % min(len(snk), 4), 'lag=%g' % lagf, 'argform=' + S['argform'], 'pops=' + S['pops'],
                   'call=' + S.get('callstyle', 'keyword')):
            ctx.tag('mfpts-sinks ' + tg)
        dense = results['ndarray']
        sc = _scale(dense, lagf)
        for cont, t in results.items():
            if np.max(np.abs(t - dense)) > TOL * sc:
                return fail('mfpts(sinks) differ between ndarray and %s input' % cont, failing='sinks',
                            sinks=snk, container=cont, lag=lag)
        # linear in the lag
        r1 = call(tpt.mfpts, np.array(Tf, copy=True), sinks=list(snk), lagtime=1.0)
        if 'error' in r1 or np.max(np.abs(dense - lagf * np.asarray(r1['ok']))) > TOL0 * sc:
            return fail('mfpts(sinks) not linear in the lag time', failing='sinks', sinks=snk, lag=lag)
        # all-pairs column j == single sink {j}
        if len(snk) == 1:
            j = snk[0]
            li = lags.index(lag) if lag in lags else None
            if li is not None:
                col = tables[(li, 'ndarray', 'none')][:, j]
                if np.max(np.abs(col - dense)) > TOL * max(sc, _scale(col, lagf)):
                    return fail('all-pairs column %d differs from the single-sink computation by %.3g'
                                % (j, np.max(np.abs(col - dense))), failing='column', sinks=snk, lag=lag)
                ctx.tag('column-vs-single-sink')
        if not use_model:
            continue
        if 'ok' not in ms:
            ctx.disagreement('Model mfptsSinks returned %s' % ms, dict(case, sinks=snk, lag=lag))
            return
        if np.max(np.abs(fr_vec(ms['ok']) - dense)) > MTOL * sc:
            ctx.disagreement('Model Tpt.mfptsSinks vs tpt.mfpts differ by %.3g'
                             % np.max(np.abs(fr_vec(ms['ok']) - dense)), dict(case, sinks=snk, lag=lag))
            return


# ----------------------------------------------------------------------------- case construction

KINDS = ['rev', 'nonrev', 'dyadic', 'cycle']
ARGFORMS = ['list', 'ndarray', 'scalar', 'tuple', 'int8', 'uint8', 'int16', 'uint16', 'int32', 'npscalar', 'range']
LAGS_EXT = [[1, 1], [1, 10 ** 6], [10 ** 6, 1]]
LARGE_N = [257, 300, 260, 511]


def split_all_but_one(rng, n):
    """sources and sinks together cover every state but one (set sizes up to n-2), shuffled"""
    p = [int(x) for x in rng.permutation(n)]
    rest = p[1:]
    a = int(rng.integers(1, len(rest)))
    return rest[:a], rest[a:]


def sinks_below_sources(rng, n):
    """every sink id below every source id, both in unsorted (descending / shuffled) order"""
    a, b = int(rng.integers(1, 4)), int(rng.integers(1, 4))
    while a + b > n:
        a, b = max(1, a - 1), max(1, b - 1)
    ids = sorted(int(x) for x in rng.choice(n, size=a + b, replace=False))
    snk, src = ids[:b][::-1], ids[b:][::-1]
    if len(src) == 3 and rng.random() < 0.5:
        src = [src[1], src[0], src[2]]
    return src, snk


def large_sets(rng, n, r):
    """source/sink sets on a chain with more than 255 states, given with DIFFERENT narrow dtypes: one side fits
    uint8/int8, the other holds ids above 255 (a wrapped or narrowed index lands on a wrong state)"""
    hi = [int(x) for x in rng.choice(np.arange(256, n), size=min(2, n - 256), replace=False)]
    lo = [int(x) for x in rng.choice(np.arange(3, 120), size=3, replace=False)]
    if r % 3 == 0:
        return lo[:2], hi + lo[2:], 'uint8', 'uint16'
    if r % 3 == 1:
        return hi, lo[::-1], 'int16', 'int8'
    return lo[:1] + hi[:1], lo[1:] + hi[1:], ['int32', 'tuple', 'list'][(r // 3) % 3], 'uint16'


def make_committor_cases(ctx):
    rng = ctx.rng
    cases = []
    rot = [0]

    def one_container():
        rot[0] += 1
        return [CONTAINERS[rot[0] % len(CONTAINERS)]]

    def argform():
        return ARGFORMS[int(rng.integers(0, len(ARGFORMS)))]

    def add(kind, T, A, B, containers, mode, **extra):
        rot[0] += 1
        c = {'check': 'committors', 'kind': kind, 'sources': [int(x) for x in A], 'sinks': [int(x) for x in B],
             'containers': containers, 'argform': argform(), 'mode': mode,
             'callstyle': 'kw' if rot[0] % 3 == 0 else 'positional'}
        if isinstance(T, dict):
            c['Tgen'] = T
            c['model'] = False
        else:
            c['T'] = T
        c.update(extra)
        cases.append(c)

    # class 6 first (a seeded mutant needed exactly this): every sink id below every source id, unsorted order
    for r in range(ctx.n(60, 600)):
        n = int(rng.integers(3, 10))
        kind = KINDS[r % len(KINDS)]
        T = t_json(gen_chain(rng, n, kind))
        A, B = sinks_below_sources(rng, n)
        add(kind, T, A, B, list(CONTAINERS) if r % 4 == 0 else one_container() + [dense_variant(kind, r)],
            'sinks-below-sources', reuse=(r % 5 == 0))
    # exhaustive source/sink pairs on small chains (incl. 2-state chains); one rotating sparse container per pair
    exhaustive = ctx.n({2: 4, 3: 8, 4: 6, 5: 2, 6: 1}, {2: 8, 3: 16, 4: 16, 5: 12, 6: 6, 7: 3})
    for n, reps in exhaustive.items():
        for r in range(reps):
            kind = KINDS[(r + n) % len(KINDS)]
            T = t_json(gen_chain(rng, n, kind))
            for A, B in all_set_pairs(n):
                A, B = list(A), list(B)
                if rng.random() < 0.5:
                    A, B = A[::-1], B[::-1]
                add(kind, T, A, B, one_container(), 'exhaustive')
    # random pairs on chains up to 10 states; every sparse container + one dense variant
    for r in range(ctx.n(500, 4000)):
        n = int(rng.integers(3, 11))
        kind = (KINDS + ['rev-dyadic'])[int(rng.integers(0, len(KINDS) + 1))]
        T = t_json(gen_chain(rng, n, kind))
        for k in range(2):
            A, B = random_set_pair(rng, n)
            add(kind, T, A, B, list(CONTAINERS) + [dense_variant(kind, 2 * r + k)], 'random', reuse=(r % 5 == 0))
    # slowly mixing (metastable / nearly uncoupled) chains: ill-conditioned solves, tiny committors
    for r in range(ctx.n(24, 600)):
        kind = 'meta-rev' if r % 2 == 0 else 'meta-nonrev'
        Tq = gen_chain(rng, 0, kind)
        n = len(Tq)
        for _ in range(2):
            A, B = random_set_pair(rng, n)
            add(kind, t_json(Tq), A, B, list(CONTAINERS) if r % 3 == 0 else one_container(), 'metastable')
    # degenerate structure: sources + sinks = all states but one (set sizes beyond 3)
    for r in range(ctx.n(24, 400)):
        n = int(rng.integers(3, 10))
        kind = KINDS[r % len(KINDS)]
        A, B = split_all_but_one(rng, n)
        add(kind, t_json(gen_chain(rng, n, kind)), A, B, one_container() + [dense_variant(kind, r)], 'all-but-one')
    # a source adjacent only to a sink
    for r in range(ctx.n(12, 200)):
        n = int(rng.integers(3, 9))
        T, s, k = gen_pendant(rng, n)
        others = [i for i in range(n) if i not in (s, k)]
        extra_snk = [int(x) for x in rng.permutation(others)[:int(rng.integers(0, 2))]]
        add('pendant', t_json(T), [s], [k] + extra_snk, list(CONTAINERS) if r % 3 == 0 else one_container(),
            'source-adjacent-only-to-sink', reuse=True)
    # self-transition probability 1 - 1e-6 / 1 - 1e-9; entries ~1e-13 next to O(1)
    for r in range(ctx.n(16, 300)):
        n = int(rng.integers(3, 9))
        kind = ['sticky', 'tiny-rev', 'tiny-nonrev', 'sticky'][r % 4]
        T = t_json(gen_chain(rng, n, kind))
        A, B = random_set_pair(rng, n)
        add(kind, T, A, B, list(CONTAINERS) if r % 3 == 0 else one_container(), 'scale', reuse=(r % 2 == 0))
    # slowly evolving chains (committors are invariant under T -> I + 2^-k (T - I))
    for r in range(ctx.n(6, 120)):
        n = int(rng.integers(3, 9))
        k = [26, 30, 34, 16, 40, 28][r % 6]
        A, B = random_set_pair(rng, n)
        add('lazy', t_json(gen_lazy(rng, n, k)), A, B, one_container() + [dense_variant('lazy', r)], 'lazy')
    # more than 255 states: ids that do not fit int8/uint8, banded chain, oracle only (exact model too slow)
    for r in range(ctx.n(3, 12)):
        n = LARGE_N[r % len(LARGE_N)]
        seed = int(rng.integers(0, 2 ** 31))
        A, B, fa, fb = large_sets(rng, n, r)
        add('banded', {'family': 'banded', 'n': n, 'seed': seed}, A, B, list(CONTAINERS), 'large-n',
            argform=fa, argform_sinks=fb, reuse=(r == 0))
    return cases


def make_mfpt_cases(ctx):
    rng = ctx.rng
    cases = []

    def sink_sets(n, r, lags, T_small=True):
        sets = []
        singles = range(n) if T_small else [int(x) for x in rng.choice(n, size=3, replace=False)] + [n - 1]
        for j in singles:      # every singleton: column j of the all-pairs table
            sets.append({'sinks': [int(j)], 'lag': lags[(j + r) % 3], 'containers': [CONTAINERS[(j + r) % 7]],
                         'argform': ARGFORMS[(j + r) % len(ARGFORMS)],
                         'pops': 'none' if (j + r) % 2 else POPFORMS[(j + r) % 4],
                         'callstyle': 'positional' if (j + r) % 3 == 0 else 'keyword'})
        if n <= 4 and r < 24:
            more = [list(c) for k in (2, 3) for c in itertools.combinations(range(n), k) if k <= n]
        else:
            more = []
            for _ in range(4):
                k = int(rng.integers(2, 4))
                more.append([int(x) for x in rng.permutation(n)[:min(k, n)]])
            if n >= 4:          # all states but one are sinks
                more.append([int(x) for x in rng.permutation(n)[:n - 1]])
        for i, S in enumerate(more):
            sets.append({'sinks': S, 'lag': lags[(i + r) % 3],
                         'containers': list(CONTAINERS) if (i % 2 == 0 and T_small) else [CONTAINERS[(i + r) % 7]],
                         'argform': ARGFORMS[(i + 3 * r + 1) % len(ARGFORMS)],
                         'pops': 'none' if i % 3 else POPFORMS[(i + r) % 4],
                         'callstyle': 'positional' if (i + r) % 3 == 0 else 'keyword'})
        return sets

    def add(kind, T, r, lags, mode, containers=None, **extra):
        n = T['n'] if isinstance(T, dict) else len(T)
        small = n <= 10
        c = {'check': 'mfpts', 'kind': kind, 'lags': lags, 'sink_sets': sink_sets(n, r, lags, small),
             'containers': containers if containers is not None else
             (list(CONTAINERS) if r % 3 == 0 else [CONTAINERS[r % 7]]) + [dense_variant(kind, r)],
             'popform': POPFORMS[r % 4], 'mode': mode}
        if isinstance(T, dict):
            c['Tgen'] = T
            c['model'] = False
        else:
            c['T'] = T
        c.update(extra)
        cases.append(c)

    n_generic, n_meta = ctx.n(200, 1600), ctx.n(16, 400)
    for r in range(n_generic + n_meta):
        n = 2 + (r % 9) if r < 18 else int(rng.integers(2, 11))
        kind = (KINDS + ['rev-dyadic'])[r % 5] if r < n_generic else ('meta-rev' if r % 2 else 'meta-nonrev')
        T = t_json(gen_chain(rng, n, kind))
        add(kind, T, r, LAGS, 'generic' if r < n_generic else 'metastable', reuse=(r % 7 == 0))
    # lag times 1e-6 and 1e6
    for r in range(ctx.n(8, 120)):
        n = int(rng.integers(2, 9))
        kind = KINDS[r % len(KINDS)]
        add(kind, t_json(gen_chain(rng, n, kind)), r, LAGS_EXT, 'lag-extremes')
    # self-transition 1 - 1e-9, entries ~1e-13, pendant states
    for r in range(ctx.n(9, 150)):
        n = int(rng.integers(3, 8))
        kind = ['sticky', 'tiny-rev', 'tiny-nonrev'][r % 3]
        if r % 4 == 3:
            kind, T = 'pendant', gen_pendant(rng, n)[0]
        else:
            T = gen_chain(rng, n, kind)
        add(kind, t_json(T), r, LAGS, 'scale', reuse=True)
    # slowly evolving chains I + 2^-k (T0 - I): every off-diagonal entry tiny (below 1e-8 for k >= 26), exact in binary
    KS = [26, 30, 28, 34, 8, 32, 16, 27, 24, 40, 29, 20]
    for r in range(ctx.n(12, 240)):
        n = int(rng.integers(3, 9))
        k = KS[r % len(KS)]
        add('lazy', t_json(gen_lazy(rng, n, k)), r, LAGS, 'lazy-2^-%d' % k if k >= 26 else 'lazy-k<26')
    # internally symmetric wells joined by asymmetric tiny links / lazy versions: column sums within 1e-10 of 1 although
    # the stationary vector is not uniform
    for r in range(ctx.n(6, 120)):
        if r % 2:
            T = gen_wells(rng, int(rng.integers(3, 6)), lazy=int(rng.integers(26, 35)))[0]
        else:
            T = gen_wells(rng, 26 + int(rng.integers(0, 9)))[0]
        add('wells', t_json(T), r, LAGS, 'numerically-doubly-stochastic')
    # symmetric chains with one rate off by a relative 1e-5 .. 1e-9 (exact dyadic perturbation); tolerance 1e-12
    for r in range(ctx.n(12, 240)):
        n = int(rng.integers(3, 9))
        p = 20 + (r * 5) % 14
        add('nearsym', t_json(gen_nearsym(rng, n, p)), r, LAGS, 'near-symmetric', tight=True)
    # more than 255 states (reversible banded; exact populations in closed form; oracle only)
    for r in range(ctx.n(1, 4)):
        n = LARGE_N[r % len(LARGE_N)]
        add('banded', {'family': 'banded', 'n': n, 'seed': int(rng.integers(0, 2 ** 31)), }, r, LAGS, 'large-n',
            containers=[CONTAINERS[r % 7]], popform='given')
    return cases


def run_cases(ctx, cases):
    # one BLAS/LAPACK thread: the matrices are small and multi-threaded LAPACK only burns CPU (100x slower under load)
    from threadpoolctl import threadpool_limits
    with threadpool_limits(limits=1):
        _run_cases(ctx, cases)


def _run_cases(ctx, cases):
    reqs, spans = [], []
    for c in cases:
        rq = committor_requests(c) if c['check'] == 'committors' else mfpt_requests(c)
        spans.append((len(reqs), len(reqs) + len(rq)))
        reqs += rq
    resp = ctx.driver(reqs)
    for c, (a, b) in zip(cases, spans):
        if c['check'] == 'committors':
            check_committors(ctx, c, resp[a:b])
        else:
            check_mfpts(ctx, c, resp[a:b])


def run(ctx):
    cases = make_committor_cases(ctx) + make_mfpt_cases(ctx)
    run_cases(ctx, cases)
    ctx.note('tolerances', {'residual_rel': TOL0, 'boundary_abs': TIGHT0, 'slow_mixing': 'x 1e-3/gap when gap < 1e-3',
                            'float32_populations': '1e-5 relative (they are stationary only to 6e-8)'})


REPLAY_KEYS = {'committors': ('check', 'kind', 'T', 'Tgen', 'model', 'sources', 'sinks', 'containers', 'argform', 'argform_sinks',
                              'callstyle', 'reuse', 'mode'),
               'mfpts': ('check', 'kind', 'T', 'Tgen', 'model', 'lags', 'sink_sets', 'containers', 'popform', 'reuse', 'tight',
                         'mode')}


def replay(ctx, data):
    run_cases(ctx, [{k: data[k] for k in REPLAY_KEYS[data['check']] if k in data}])
