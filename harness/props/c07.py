"""C07 - committors and mean first-passage times satisfy their first-step equations.

Real code driven: enspara.tpt.committors, enspara.tpt.mfpts (sink sets and all-pairs),
enspara.tpt.core._I_m_Q.  Every real output is judged by the property's own words in plain
numpy (first-step residuals, boundary values, bounds, column-vs-single-sink, lag linearity,
dense-vs-sparse, input snapshots) and compared with the exact rational values of the Lean model
(Model/Tpt.lean through the compiled driver, certified exact solver Model/LinSolveT.lean).
"""
import itertools
from fractions import Fraction as F

import numpy as np

RULE = ('random irreducible row-stochastic chains with small-denominator rational entries, 3..10 states: '
        'reversible (symmetric integer weights), non-reversible (integer counts + Hamiltonian cycle), '
        'dyadic (entries k/16, exact in binary64), periodic cycles, zero/non-zero diagonals; '
        'source/sink sets: ALL disjoint non-empty pairs with sizes <= 3 for small n, random pairs for larger n, '
        'given in shuffled order as list / ndarray / scalar; containers ndarray + the 7 scipy *_matrix formats; '
        'lag in {1, 2.5, 10}; populations given or computed. A case is non-trivial when it has at least one '
        'intermediate state (committors) / at least one non-sink state (mfpts); distinct by canonical input')
ASSUMPTIONS = [
    'the numerical solvers (SuperLU spsolve, LAPACK gesv/getri, eig) meet their contracts up to rounding: '
    'checked on every case by the first-step residuals of the real outputs (<= 1e-9 relative to the table scale)',
    'binary64 rounding of the rational inputs (relative 1e-16) moves the exact solution by far less than the 1e-9 tolerance '
    'on these small, well-conditioned chains',
]
TRUSTED_EXTRA = ['Model/LinSolveT.lean elimination is untrusted: its result is used only after the exact residual certificate A X = B (proved sound: solve_sound)']

MIRRORS = [('enspara/tpt/core.py', None)]

CONTAINERS = ['bsr_matrix', 'coo_matrix', 'csc_matrix', 'csr_matrix', 'dia_matrix', 'dok_matrix', 'lil_matrix']
LAGS = [[1, 1], [5, 2], [10, 1]]
TOL0 = 1e-9
TIGHT0 = 1e-12


# ----------------------------------------------------------------------------- generators

def _fr(x):
    return [int(x.numerator), int(x.denominator)]


def _normalise_rows(C):
    n = len(C)
    return [[F(int(C[i][j]), int(sum(C[i]))) for j in range(n)] for i in range(n)]


def gen_chain(rng, n, kind):
    """returns T as n x n list of Fractions (irreducible by construction)"""
    if kind == 'rev':
        C = np.zeros((n, n), dtype=int)
        dens = rng.choice([0.3, 0.6, 1.0])
        for i in range(n):
            for j in range(i, n):
                if rng.random() < dens:
                    C[i, j] = C[j, i] = int(rng.integers(1, 6))
        perm = rng.permutation(n)           # spanning path keeps it connected
        for a, b in zip(perm[:-1], perm[1:]):
            if C[a, b] == 0:
                C[a, b] = C[b, a] = int(rng.integers(1, 6))
        return _normalise_rows(C.tolist())
    if kind == 'nonrev':
        C = np.zeros((n, n), dtype=int)
        dens = rng.choice([0.25, 0.5, 1.0])
        for i in range(n):
            for j in range(n):
                if rng.random() < dens:
                    C[i, j] = int(rng.integers(1, 7))
        perm = rng.permutation(n)           # Hamiltonian cycle keeps it irreducible
        for a, b in zip(perm, np.roll(perm, -1)):
            if C[a, b] == 0:
                C[a, b] = int(rng.integers(1, 7))
        return _normalise_rows(C.tolist())
    if kind == 'dyadic':
        # entries k/16: exactly representable, rows sum to exactly 1 in binary64
        perm = rng.permutation(n)
        nxt = {int(a): int(b) for a, b in zip(perm, np.roll(perm, -1))}
        T = []
        for i in range(n):
            k = int(rng.integers(1, min(n, 5) + 1))
            supp = {nxt[i]} | set(int(x) for x in rng.choice(n, size=k, replace=False))
            supp = sorted(supp)
            w = np.ones(len(supp), dtype=int)
            for _ in range(16 - len(supp)):
                w[int(rng.integers(0, len(supp)))] += 1
            row = [F(0)] * n
            for s, x in zip(supp, w):
                row[s] = F(int(x), 16)
            T.append(row)
        return T
    if kind == 'cycle':
        # periodic: a pure directed cycle with one chord pair (still irreducible, zero diagonal)
        perm = [int(x) for x in rng.permutation(n)]
        C = np.zeros((n, n), dtype=int)
        for a, b in zip(perm, perm[1:] + perm[:1]):
            C[a, b] = int(rng.integers(1, 4))
        a, b = (int(x) for x in rng.choice(n, size=2, replace=False))
        C[a, b] += int(rng.integers(1, 4))
        return _normalise_rows(C.tolist())
    if kind in ('meta-rev', 'meta-nonrev'):
        return gen_metastable(rng, kind == 'meta-rev')
    raise ValueError(kind)


def gen_metastable(rng, reversible, n_max=8):
    """two or three well-connected basins joined by rarely crossed barriers: in-basin weights are
    (1..5) * 10^k, barrier weights 1..9, k in 4..7 -> barrier/in-basin ratio about 10^U(-7,-4), spectral gap
    of that order.  Integer weights, so T = C / rowsum(C) is exact rational and (reversible case) the
    stationary vector is rowsum(C) / sum(C) in closed form.  State labels are shuffled."""
    nb = 2 if rng.random() < 0.7 else 3
    sizes = [int(rng.integers(2, 5)) for _ in range(nb)]
    while sum(sizes) > n_max:
        sizes[int(np.argmax(sizes))] -= 1
    n = sum(sizes)
    k = int(rng.choice([4, 5, 5, 6, 6, 7]))
    S = 10 ** k
    starts = np.cumsum([0] + sizes)
    C = [[0] * n for _ in range(n)]
    for b in range(nb):
        idx = list(range(starts[b], starts[b + 1]))
        for i in idx:
            for j in idx:
                if reversible and j < i:
                    continue
                if rng.random() < 0.8 or (not reversible and idx[(idx.index(i) + 1) % len(idx)] == j) \
                        or (reversible and j == i + 1):
                    w = int(rng.integers(1, 6)) * S
                    C[i][j] = w
                    if reversible:
                        C[j][i] = w
    for b in range(nb - 1):
        A = list(range(starts[b], starts[b + 1]))
        B = list(range(starts[b + 1], starts[b + 2]))
        for _ in range(int(rng.integers(1, 3))):
            i, j = int(rng.choice(A)), int(rng.choice(B))
            C[i][j] = int(rng.integers(1, 10))
            C[j][i] = C[i][j] if reversible else int(rng.integers(1, 10))
    perm = [int(x) for x in rng.permutation(n)]
    C = [[C[perm[i]][perm[j]] for j in range(n)] for i in range(n)]
    return _normalise_rows(C)


def cond_factor(Tf):
    """how much looser than 1e-9 a comparison may be on a slowly mixing chain: the library's own eq_probs /
    inverse / solves lose about 1/gap digits (gap = distance of the second eigenvalue from 1).  1 for ordinary
    chains (gap >= 1e-3), 1e-3/gap otherwise.  A wrong formula gives O(1) relative errors, far above this."""
    d = np.sort(np.abs(1.0 - np.linalg.eigvals(Tf)))
    gap = float(d[1]) if len(d) > 1 else 1.0
    return max(1.0, 1e-3 / max(gap, 1e-12)), gap


def is_reversible_pi(T, pi):
    n = len(T)
    return all(pi[i] * T[i][j] == pi[j] * T[j][i] for i in range(n) for j in range(n))


def all_set_pairs(n, maxsize=3):
    out = []
    states = range(n)
    for a in range(1, maxsize + 1):
        for A in itertools.combinations(states, a):
            rest = [s for s in states if s not in A]
            for b in range(1, maxsize + 1):
                for B in itertools.combinations(rest, b):
                    out.append((list(A), list(B)))
    return out


def random_set_pair(rng, n, maxsize=3, need_free=0):
    while True:
        a = int(rng.integers(1, maxsize + 1))
        b = int(rng.integers(1, maxsize + 1))
        if a + b + need_free <= n:
            break
    p = [int(x) for x in rng.permutation(n)]
    return p[:a], p[a:a + b]          # shuffled order on purpose


# ----------------------------------------------------------------------------- plumbing

def t_json(T):
    return [[_fr(x) for x in row] for row in T]


def t_from_json(J):
    return [[F(a, b) for a, b in row] for row in J]


def t_float(T):
    return np.array([[x.numerator / x.denominator for x in row] for row in T], dtype=float)


def to_container(Tf, name):
    if name == 'ndarray':
        return np.array(Tf, copy=True)
    import scipy.sparse as sp
    return getattr(sp, name)(Tf)


def snap(x):
    """byte-level snapshot of an argument (content + representation)"""
    import scipy.sparse as sp
    if x is None:
        return None
    if isinstance(x, np.ndarray):
        return ('nd', x.dtype.str, x.shape, x.tobytes())
    if sp.issparse(x):
        fmt = x.format
        parts = [fmt, x.shape, x.dtype.str]
        if fmt in ('csr', 'csc', 'bsr'):
            parts += [x.data.tobytes(), x.indices.tobytes(), x.indptr.tobytes()]
        elif fmt == 'coo':
            parts += [x.data.tobytes(), x.row.tobytes(), x.col.tobytes()]
        elif fmt == 'dia':
            parts += [x.data.tobytes(), x.offsets.tobytes()]
        elif fmt == 'dok':
            parts += [sorted((tuple(int(i) for i in k), float(v)) for k, v in x.items())]
        elif fmt == 'lil':
            parts += [[list(r) for r in x.rows], [list(d) for d in x.data]]
        parts.append(x.toarray().tobytes())
        return tuple(parts)
    if isinstance(x, (list, tuple)):
        return ('seq', type(x).__name__, tuple(x))
    return ('scalar', type(x).__name__, x)


def as_arg(states, form):
    if form == 'list':
        return list(states)
    if form == 'ndarray':
        return np.array(states, dtype=int)
    if form == 'scalar' and len(states) == 1:
        return int(states[0])
    return list(states)


def fr_vec(resp):
    return np.array([a / b for a, b in resp], dtype=float)


def fr_mat(resp):
    return np.array([[a / b for a, b in row] for row in resp], dtype=float)


def call(fn, *a, **k):
    """run real code; RuntimeWarnings are kept silent, exceptions reported as a value"""
    import warnings
    try:
        with warnings.catch_warnings():
            warnings.simplefilter('ignore')
            return {'ok': fn(*a, **k)}
    except Exception as e:  # noqa
        return {'error': '%s: %s' % (type(e).__name__, str(e)[:200])}


# ----------------------------------------------------------------------------- committors

def committor_requests(case):
    return [{'op': 'C07.committors', 'T': case['T'], 'sources': case['sources'], 'sinks': case['sinks']},
            {'op': 'C07.imq', 'T': case['T'], 'absorbing': case['sources'] + case['sinks']}]


def check_committors(ctx, case, resp):
    from enspara import tpt
    from enspara.tpt import core
    T = t_from_json(case['T'])
    n = len(T)
    Tf = t_float(T)
    src, snk = case['sources'], case['sinks']
    inter = [i for i in range(n) if i not in src and i not in snk]
    fac, gap = cond_factor(Tf)
    # committor accuracy of LU on the absorbing chain: |dq| <~ 1.6e-16/gap observed, bound 5e-15/gap
    TOL, TIGHT = TOL0 * fac, TIGHT0 + 5e-15 / gap
    QTOL = TOL0 + 5e-15 / gap
    if fac > 1:
        ctx.tag('committors slow-mixing gap<1e-%d' % int(np.floor(-np.log10(gap))))
    ctx.case({k: case[k] for k in ('T', 'sources', 'sinks')}, nontrivial=len(inter) > 0,
             tags=['committors', 'kind=' + case['kind'], 'n=%d' % n,
                   'nsrc=%d' % len(src), 'nsnk=%d' % len(snk),
                   'no-intermediate' if not inter else 'has-intermediate',
                   'argform=' + case['argform']])
    results = {}
    for cont in ['ndarray'] + case['containers']:
        X = to_container(Tf, cont)
        a_src, a_snk = as_arg(src, case['argform']), as_arg(snk, case['argform'])
        before = (snap(X), snap(a_src), snap(a_snk))
        r = call(tpt.committors, X, a_src, a_snk)
        ctx.tag('container=' + cont)
        if 'error' in r:
            ctx.violation('tpt.committors raised %s (%s)' % (r['error'], cont), dict(case, failing=cont))
            return
        if (snap(X), snap(a_src), snap(a_snk)) != before:
            ctx.violation('tpt.committors modified its inputs (%s)' % cont, dict(case, failing=cont))
            return
        q = np.asarray(r['ok'], dtype=float)
        if q.shape != (n,):
            ctx.violation('committors shape %s != (%d,) (%s)' % (q.shape, n, cont), dict(case, failing=cont))
            return
        results[cont] = q
        # the property's words, on the real output
        if not np.all(np.isfinite(q)):
            ctx.violation('committors not finite (%s)' % cont, dict(case, failing=cont))
            return
        if np.any(np.abs(q[src]) > TIGHT0):
            ctx.violation('committor not 0 on a source (%s)' % cont, dict(case, failing=cont, got=q.tolist()))
            return
        if np.any(np.abs(q[snk] - 1.0) > TIGHT0):
            ctx.violation('committor not 1 on a sink (%s)' % cont, dict(case, failing=cont, got=q.tolist()))
            return
        if np.any(q < -TIGHT) or np.any(q > 1 + TIGHT):
            ctx.violation('committor outside [0,1] (%s)' % cont, dict(case, failing=cont, got=q.tolist()))
            return
        if inter:
            res = q[inter] - Tf[inter] @ q
            if np.max(np.abs(res)) > TOL:
                ctx.violation('committor first-step residual %.3g at an intermediate state (%s)'
                              % (np.max(np.abs(res)), cont), dict(case, failing=cont, got=q.tolist()))
                return
    dense = results['ndarray']
    for cont, q in results.items():
        if np.max(np.abs(q - dense)) > TOL:
            ctx.violation('committors differ between ndarray and %s input' % cont,
                          dict(case, failing=cont, dense=dense.tolist(), sparse=q.tolist()))
            return
    # model vs real
    mq, mimq = resp
    if 'ok' not in mq:
        ctx.disagreement('Model Tpt.committors returned %s where tpt.committors succeeded' % mq,
                         dict(case, model=mq))
        return
    qm = fr_vec(mq['ok'])
    if np.max(np.abs(qm - dense)) > QTOL:
        ctx.disagreement('Model Tpt.committors vs tpt.committors differ by %.3g' % np.max(np.abs(qm - dense)),
                         dict(case, model=qm.tolist(), impl=dense.tolist()))
        return
    # _I_m_Q differential (internal building block named by the property's anchors)
    ab = np.append(np.array(src, dtype=int), np.array(snk, dtype=int))
    r = call(core._I_m_Q, np.array(Tf, copy=True), ab, n_states=n)
    if 'ok' in r and 'ok' in mimq:
        if np.max(np.abs(np.asarray(r['ok']) - fr_mat(mimq['ok']))) > 1e-15:
            ctx.disagreement('Model Tpt.ImQ vs core._I_m_Q', dict(case, model=mimq))
    else:
        ctx.disagreement('core._I_m_Q / Model ImQ failed: %s %s' % (r.get('error'), mimq.get('error')), case)


# ----------------------------------------------------------------------------- mfpts

def mfpt_requests(case):
    reqs = [{'op': 'C07.eq_probs', 'T': case['T']}]
    for lag in case['lags']:
        reqs.append({'op': 'C07.mfpts_all', 'T': case['T'], 'lag': lag})
    for S in case['sink_sets']:
        reqs.append({'op': 'C07.mfpts_sinks', 'T': case['T'], 'sinks': S['sinks'], 'lag': S['lag']})
    return reqs


def _scale(m):
    return max(1.0, float(np.max(np.abs(m))))


def check_mfpts(ctx, case, resp):
    from enspara import tpt
    T = t_from_json(case['T'])
    n = len(T)
    Tf = t_float(T)
    lags = case['lags']
    fac, gap = cond_factor(Tf)
    TOL, TIGHT = TOL0 * fac, TIGHT0
    if fac > 1:
        ctx.tag('mfpts slow-mixing gap<1e-%d' % int(np.floor(-np.log10(gap))))
    ctx.case({k: case[k] for k in ('T', 'sink_sets', 'lags')}, nontrivial=True,
             tags=['mfpts', 'kind=' + case['kind'], 'n=%d' % n])
    m_pi = resp[0]
    if 'ok' not in m_pi:
        ctx.disagreement('Model eqProbs failed on an irreducible chain: %s' % m_pi, case)
        return
    pi_exact = fr_vec(m_pi['ok'])
    resp_all = resp[1:1 + len(lags)]
    resp_sinks = resp[1 + len(lags):]

    def fail(what, **extra):
        ctx.violation(what, dict(case, **extra))

    # ---- all pairs
    base = None          # dense, lag 1, populations=None
    tables = {}
    for li, lag in enumerate(lags):
        lagf = lag[0] / lag[1]
        for cont in ['ndarray'] + case['containers']:
            for pops in ('none', 'given'):
                if cont != 'ndarray' and pops == 'given' and li != 0:
                    continue
                X = to_container(Tf, cont)
                p = None if pops == 'none' else np.array(pi_exact, copy=True)
                before = (snap(X), snap(p))
                r = call(tpt.mfpts, X, populations=p, lagtime=lagf)
                ctx.tag('mfpts-all container=' + cont)
                ctx.tag('mfpts-all lag=%g pops=%s' % (lagf, pops))
                where = dict(failing='all-pairs', container=cont, lag=lag, pops=pops)
                if 'error' in r:
                    return fail('tpt.mfpts (all pairs) raised %s' % r['error'], **where)
                if (snap(X), snap(p)) != before:
                    return fail('tpt.mfpts (all pairs) modified its inputs', **where)
                m = np.asarray(r['ok'], dtype=float)
                if m.shape != (n, n) or not np.all(np.isfinite(m)):
                    return fail('all-pairs mfpts: bad shape/non-finite %s' % (m.shape,), **where)
                sc = _scale(m)
                if np.max(np.abs(np.diag(m))) > TIGHT * sc:
                    return fail('all-pairs mfpts: diagonal not 0', got=m.tolist(), **where)
                # first-step: m_ij = lag + sum_k T_ik m_kj for i != j
                res = m - lagf - Tf @ m
                np.fill_diagonal(res, 0.0)
                if np.max(np.abs(res)) > TOL * sc:
                    return fail('all-pairs mfpts: first-step residual %.3g' % np.max(np.abs(res)),
                                got=m.tolist(), **where)
                tables[(li, cont, pops)] = m
                if li == 0 and cont == 'ndarray' and pops == 'none':
                    base = m
        dense = tables[(li, 'ndarray', 'none')]
        sc = _scale(dense)
        for (l2, cont, pops), m in tables.items():
            if l2 == li and np.max(np.abs(m - dense)) > TOL * sc:
                return fail('all-pairs mfpts differ between ndarray/populations=None and %s/populations=%s' % (cont, pops),
                            failing='all-pairs', container=cont, lag=lag, pops=pops)
        # linear in the lag
        if np.max(np.abs(dense - lagf * base)) > TOL0 * sc:
            return fail('all-pairs mfpts not linear in the lag time', failing='all-pairs', lag=lag)
        mm = resp_all[li]
        if 'ok' not in mm:
            ctx.disagreement('Model mfptsAll returned %s' % mm, dict(case, lag=lag))
            return
        if np.max(np.abs(fr_mat(mm['ok']) - dense)) > TOL * sc:
            ctx.disagreement('Model Tpt.mfptsAll vs tpt.mfpts differ by %.3g (lag %s)'
                             % (np.max(np.abs(fr_mat(mm['ok']) - dense)), lag), dict(case, lag=lag))
            return

    # ---- sink sets (the first n entries of sink_sets are the singletons {j})
    for S, ms in zip(case['sink_sets'], resp_sinks):
        snk, lag = S['sinks'], S['lag']
        lagf = lag[0] / lag[1]
        free = [i for i in range(n) if i not in snk]
        results = {}
        for cont in ['ndarray'] + S['containers']:
            X = to_container(Tf, cont)
            a_snk = as_arg(snk, S['argform'])
            p = None if S['pops'] == 'none' else np.array(pi_exact, copy=True)
            before = (snap(X), snap(a_snk), snap(p))
            r = call(tpt.mfpts, X, sinks=a_snk, populations=p, lagtime=lagf)
            ctx.tag('mfpts-sinks container=' + cont)
            where = dict(failing='sinks', sinks=snk, container=cont, lag=lag)
            if 'error' in r:
                return fail('tpt.mfpts(sinks=...) raised %s' % r['error'], **where)
            if (snap(X), snap(a_snk), snap(p)) != before:
                return fail('tpt.mfpts(sinks=...) modified its inputs', **where)
            t = np.asarray(r['ok'], dtype=float)
            if t.shape != (n,) or not np.all(np.isfinite(t)):
                return fail('mfpts(sinks): bad shape/non-finite %s' % (t.shape,), **where)
            sc = _scale(t)
            if np.max(np.abs(t[snk])) > TIGHT * sc:
                return fail('mfpts(sinks): not 0 on a sink', got=t.tolist(), **where)
            if free:
                res = t[free] - lagf - Tf[free] @ t
                if np.max(np.abs(res)) > TOL * sc:
                    return fail('mfpts(sinks): first-step residual %.3g' % np.max(np.abs(res)),
                                got=t.tolist(), **where)
            results[cont] = t
        for tg in ('nsnk=%d' % len(snk), 'lag=%g' % lagf, 'argform=' + S['argform'], 'pops=' + S['pops']):
            ctx.tag('mfpts-sinks ' + tg)
        dense = results['ndarray']
        sc = _scale(dense)
        for cont, t in results.items():
            if np.max(np.abs(t - dense)) > TOL * sc:
                return fail('mfpts(sinks) differ between ndarray and %s input' % cont, failing='sinks',
                            sinks=snk, container=cont, lag=lag)
        # linear in the lag
        r1 = call(tpt.mfpts, np.array(Tf, copy=True), sinks=list(snk), lagtime=1.0)
        if 'error' in r1 or np.max(np.abs(dense - lagf * np.asarray(r1['ok']))) > TOL0 * sc:
            return fail('mfpts(sinks) not linear in the lag time', failing='sinks', sinks=snk, lag=lag)
        # all-pairs column j == single sink {j}
        if len(snk) == 1:
            j = snk[0]
            li = lags.index(lag) if lag in lags else None
            if li is not None:
                col = tables[(li, 'ndarray', 'none')][:, j]
                if np.max(np.abs(col - dense)) > TOL * max(sc, _scale(col)):
                    return fail('all-pairs column %d differs from the single-sink computation by %.3g'
                                % (j, np.max(np.abs(col - dense))), failing='column', sinks=snk, lag=lag)
                ctx.tag('column-vs-single-sink')
        if 'ok' not in ms:
            ctx.disagreement('Model mfptsSinks returned %s' % ms, dict(case, sinks=snk, lag=lag))
            return
        if np.max(np.abs(fr_vec(ms['ok']) - dense)) > TOL * sc:
            ctx.disagreement('Model Tpt.mfptsSinks vs tpt.mfpts differ by %.3g'
                             % np.max(np.abs(fr_vec(ms['ok']) - dense)), dict(case, sinks=snk, lag=lag))
            return


# ----------------------------------------------------------------------------- case construction

KINDS = ['rev', 'nonrev', 'dyadic', 'cycle']
ARGFORMS = ['list', 'ndarray', 'scalar']


def make_committor_cases(ctx):
    rng = ctx.rng
    cases = []
    rot = [0]

    def one_container():
        rot[0] += 1
        return [CONTAINERS[rot[0] % len(CONTAINERS)]]

    # exhaustive source/sink pairs on small chains; one rotating sparse container per pair
    exhaustive = ctx.n({3: 8, 4: 6, 5: 2, 6: 1}, {3: 16, 4: 16, 5: 12, 6: 6, 7: 3})
    for n, reps in exhaustive.items():
        for r in range(reps):
            kind = KINDS[(r + n) % len(KINDS)]
            T = t_json(gen_chain(rng, n, kind))
            for A, B in all_set_pairs(n):
                A, B = list(A), list(B)
                if rng.random() < 0.5:
                    A, B = A[::-1], B[::-1]
                cases.append({'check': 'committors', 'kind': kind, 'T': T, 'sources': A, 'sinks': B,
                              'containers': one_container(),
                              'argform': ARGFORMS[int(rng.integers(0, 3))], 'mode': 'exhaustive'})
    # random pairs on chains up to 10 states; every container
    for r in range(ctx.n(500, 4000)):
        n = int(rng.integers(3, 11))
        kind = KINDS[int(rng.integers(0, len(KINDS)))]
        T = t_json(gen_chain(rng, n, kind))
        for _ in range(2):
            A, B = random_set_pair(rng, n)
            cases.append({'check': 'committors', 'kind': kind, 'T': T, 'sources': A, 'sinks': B,
                          'containers': list(CONTAINERS),
                          'argform': ARGFORMS[int(rng.integers(0, 3))], 'mode': 'random'})
    # slowly mixing (metastable / nearly uncoupled) chains: ill-conditioned solves, tiny committors
    for r in range(ctx.n(24, 600)):
        kind = 'meta-rev' if r % 2 == 0 else 'meta-nonrev'
        Tq = gen_chain(rng, 0, kind)
        n = len(Tq)
        for _ in range(2):
            A, B = random_set_pair(rng, n)
            cases.append({'check': 'committors', 'kind': kind, 'T': t_json(Tq), 'sources': A, 'sinks': B,
                          'containers': list(CONTAINERS) if r % 3 == 0 else one_container(),
                          'argform': ARGFORMS[int(rng.integers(0, 3))], 'mode': 'metastable'})
    return cases


def make_mfpt_cases(ctx):
    rng = ctx.rng
    cases = []
    n_generic, n_meta = ctx.n(200, 1600), ctx.n(16, 400)
    for r in range(n_generic + n_meta):
        n = 3 + (r % 8) if r < 16 else int(rng.integers(3, 11))
        kind = KINDS[r % len(KINDS)] if r < n_generic else ('meta-rev' if r % 2 else 'meta-nonrev')
        T = t_json(gen_chain(rng, n, kind))
        n = len(T)
        sets = []
        for j in range(n):      # every singleton: column j of the all-pairs table
            sets.append({'sinks': [j], 'lag': LAGS[(j + r) % 3], 'containers': [CONTAINERS[(j + r) % 7]],
                         'argform': ARGFORMS[(j + r) % 3], 'pops': 'none' if (j + r) % 2 else 'given'})
        if n <= 4 and r < 24:
            more = [list(c) for k in (2, 3) for c in itertools.combinations(range(n), k) if k <= n]
        else:
            more = []
            for _ in range(4):
                k = int(rng.integers(2, 4))
                more.append([int(x) for x in rng.permutation(n)[:min(k, n)]])
        for i, S in enumerate(more):
            sets.append({'sinks': S, 'lag': LAGS[(i + r) % 3],
                         'containers': list(CONTAINERS) if i % 2 == 0 else [CONTAINERS[(i + r) % 7]],
                         'argform': ARGFORMS[(i + r + 1) % 2], 'pops': 'none' if i % 3 else 'given'})
        cases.append({'check': 'mfpts', 'kind': kind, 'T': T, 'lags': LAGS, 'sink_sets': sets,
                      'containers': list(CONTAINERS) if r % 3 == 0 else [CONTAINERS[r % 7]]})
    return cases


def run_cases(ctx, cases):
    reqs, spans = [], []
    for c in cases:
        rq = committor_requests(c) if c['check'] == 'committors' else mfpt_requests(c)
        spans.append((len(reqs), len(reqs) + len(rq)))
        reqs += rq
    resp = ctx.driver(reqs)
    for c, (a, b) in zip(cases, spans):
        if c['check'] == 'committors':
            check_committors(ctx, c, resp[a:b])
        else:
            check_mfpts(ctx, c, resp[a:b])


def run(ctx):
    cases = make_committor_cases(ctx) + make_mfpt_cases(ctx)
    run_cases(ctx, cases)
    ctx.note('tolerances', {'residual_rel': TOL0, 'boundary_abs': TIGHT0, 'slow_mixing': 'x 1e-3/gap when gap < 1e-3'})


def replay(ctx, data):
    keys = {'committors': ('check', 'kind', 'T', 'sources', 'sinks', 'containers', 'argform'),
            'mfpts': ('check', 'kind', 'T', 'lags', 'sink_sets', 'containers')}[data['check']]
    run_cases(ctx, [{k: data[k] for k in keys}])
