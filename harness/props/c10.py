"""C10 - nearest-center assignment and per-trajectory bookkeeping are exact.

Entry points driven on the staged copy of /repo:
  enspara.cluster.util.assign_to_nearest_center (both branches), find_cluster_centers,
  ClusterResult.partition, compute_batches, batch_reassign (small generated .h5 files),
  KCenters/KHybrid/KMedoids .fit(X).predict(Y), enspara.ra.ra.partition_list / partition_indices.
Every real output is (a) judged by the property's own words with brute-force numpy oracles
(-> ctx.violation) and (b) compared with the compiled Lean model Model/Assign.lean
(-> ctx.disagreement when only the model differs, e.g. another tie-break).
"""
import os
import shutil
import tempfile
import warnings
from fractions import Fraction

import numpy as np

RULE = ('seeded random cases per entry point: assign (n frames 0..8, k centers 0..10 so that k<n, k=n, '
        'k>n all occur; centers as list / ndarray / xyz-carrying ndarray view so both code branches run; '
        'table metric over small-integer tables with many ties, symmetric and asymmetric, and the compiled '
        'euclidean/manhattan kernels on small-integer points in 6 dtypes); predict via KCenters/KHybrid/'
        'KMedoids fit on X then predict on Y with fewer/equal/more frames than centers; find_cluster_centers '
        '(labels with gaps/negatives, ties, inf); ClusterResult.partition (equal, unequal, length-1, single, '
        'occasionally zero-length trajectories; center indices always include first and last frame of every '
        'trajectory; lengths/indices as list, int64 ndarray or int32 ndarray; every argument snapshotted before/'
        'after, the same ClusterResult partitioned twice; a few inconsistent inputs for the error branch); '
        'partition_list / partition_indices directly; compute_batches; batch_reassign on generated .h5 '
        'trajectories (a few cases quick, more in thorough). Blind-spot families (tags family:*): sizes past '
        'narrow integer dtypes (>255 and >65535 centers, frames, trajectories, flat indices); every argument '
        'as list/tuple/int32/int64 ndarray, labels int8..int64/uint8, distances float32, F-ordered and strided '
        'data, keyword calls, md.Trajectory frames/centers with md.rmsd; tables and points scaled by 2^+-30 and '
        'near-ties of relative 2^-20 next to exact ties; degenerate structure (all equidistant, one frame, one '
        'center, identical frames, a label whose single member sits at the global maximum distance); every '
        'batch size 0..total+2 for compute_batches and batch sizes on every length boundary for '
        'batch_reassign. Non-trivial = at least one frame and the entry '
        'point has a real choice to make (k>=2, >=1 label, >=1 center index, >=1 trajectory); distinct by '
        'canonical input.')
ASSUMPTIONS = [
    'the table metric (a Python callable reading a small-integer matrix) and the euclidean/manhattan '
    'kernels return the same value for the same (frame, center) pair whenever they are called; the table '
    'given to the model is the kernel\'s own float64 output converted exactly to rationals',
    'numpy argmin/min/unique/where follow their documented semantics (first minimum, ascending unique); '
    'the model fuses where+argmin+index-back into one first-minimal-member scan',
    'mdtraj loads what it saved (batch_reassign cases); the oracle for batch_reassign is the brute-force '
    'minimum over md.rmsd values computed on the whole data set without batching (float32 kernel, 1e-5 '
    'tolerance); the model is compared exactly only when per-batch and whole-data rmsd floats coincide',
    'batch_size of batch_reassign is steered through frac_mem (real argument); the RAM size is read from psutil',
]
TRUSTED_EXTRA = ['numpy 2.4 / mdtraj 1.11 as installed in /venv for the oracles']

KEY_BATCH = 'batch-reassign-first-trajectory-fills-batch'
DTYPES = ['float64', 'float32', 'int64', 'int32', 'int16', 'int8']


# ----------------------------------------------------------------------------- helpers

def frac(x):
    """float -> exact [num, den] (None for +inf)."""
    x = float(x)
    if x == float('inf'):
        return None
    n, d = x.as_integer_ratio()      # exact, lowest terms
    return [n, d]


def erat_eq(m, x):
    """model ERat (None or [num, den]) equals float x exactly"""
    x = float(x)
    if m is None:
        return x == float('inf')
    if x != x or x in (float('inf'), float('-inf')):
        return False
    n, d = x.as_integer_ratio()
    return m[0] * d == n * m[1]


def close(x, y, tol=1e-9, scale=1.0):
    """equal up to `tol` relative to the natural scale of the data (`scale`; 0 = exact comparison)"""
    x, y = float(x), float(y)
    if np.isinf(x) or np.isinf(y) or scale == 0:
        return x == y
    return abs(x - y) <= tol * max(scale, abs(x), abs(y))


def fam(case):
    return ['family:' + case['family']] if 'family' in case else []


def case_scale(case):
    """natural scale for float comparisons; 0 (= exact) for the table metric whose oracle is exact"""
    if case.get('metric') == 'table':
        return 0
    return 2.0 ** case.get('scale_exp', 0)


def ints(a):
    return [int(v) for v in a]


def as_container(vals, how):
    """python list / int64 ndarray / int32 ndarray ('ndarray' = int64, older corpus files)"""
    if how == 'list':
        return list(vals)
    if how == 'tuple':
        return tuple(vals)
    if how == 'int32':
        return np.array(vals, dtype=np.int32)
    return np.array(vals, dtype=np.int64)


def snapshot(x):
    if isinstance(x, np.ndarray):
        return ('ndarray', str(x.dtype), tuple(x.shape), x.tobytes())
    return (type(x).__name__, [v for v in x])


def call_real(fn, *args, **kw):
    """run the real code; ('ok', value) or ('error', kind, text) - never raises"""
    try:
        with _Quiet():
            return ('ok', fn(*args, **kw))
    except Exception as e:  # noqa
        return ('error', exc_kind(e), '%s: %s' % (type(e).__name__, str(e)[:200]))


class _Quiet:
    def __enter__(self):
        self._w = warnings.catch_warnings()
        self._w.__enter__()
        warnings.simplefilter('ignore')

    def __exit__(self, *a):
        self._w.__exit__(*a)


def make_metric(case):
    """returns (metric callable, oracle(Xrows, yrow) -> float64 vector computed independently)"""
    kind = case['metric']
    if kind == 'table':
        D = np.array(case['D'], dtype=float)
        if 'P' in case:       # near-ties: relative 2^-20 (~1e-6) perturbations, exact in float64
            D = D + np.array(case['P'], dtype=float) * 2.0 ** -20
        D = D * 2.0 ** case.get('scale_exp', 0)      # exact power-of-two scaling

        def metric(X, y):
            return D[np.asarray(X)[:, 0].astype(int), int(np.asarray(y)[0])]

        def oracle(X, y):
            return np.array([D[int(r[0]), int(y[0])] for r in np.asarray(X)], dtype=float)
        return metric, oracle
    from enspara.geometry.libdist import euclidean, manhattan
    if kind == 'euclidean':
        def oracle(X, y):
            X = np.asarray(X, dtype=np.float64)
            return np.sqrt(((X - np.asarray(y, dtype=np.float64)) ** 2).sum(axis=1)) if len(X) else np.zeros(0)
        return euclidean, oracle

    def oracle(X, y):
        X = np.asarray(X, dtype=np.float64)
        return np.abs(X - np.asarray(y, dtype=np.float64)).sum(axis=1) if len(X) else np.zeros(0)
    return manhattan, oracle


def metric_arg(case):
    """what is handed to an estimator's `metric=`"""
    if case['metric'] == 'table':
        return make_metric(case)[0]
    return case['metric']


def data_array(rows, case, width=None):
    if case['metric'] == 'table':
        return np.array(rows, dtype=float).reshape(len(rows), 1)
    w = width if width is not None else case['dim']
    A = np.array(rows, dtype=case['dtype']).reshape(len(rows), w)
    if case.get('scale_exp') and case['dtype'] in ('float64', 'float32'):
        A = (A * 2.0 ** case['scale_exp']).astype(case['dtype'])
    lay = case.get('layout', 'C')
    if lay == 'F':
        A = np.asfortranarray(A)
    elif lay == 'strided' and len(A):
        big = np.zeros((2 * len(A), w), dtype=A.dtype)
        big[::2] = A
        A = big[::2]
    return A


def wrap_centers(C, how):
    if how == 'list':
        return [c for c in C]
    if how == 'ndarray':
        return C

    class XYZ(np.ndarray):
        @property
        def xyz(self):
            return np.asarray(self)
    return C.view(XYZ)


def tables(metric, oracle, X, C, swapped):
    """exact table (from the real metric) and oracle table, T[f][c]; `swapped`: the per-frame
    branch calls metric(centers, frame)."""
    n, k = len(X), len(C)
    T = np.zeros((n, k))
    O = np.zeros((n, k))
    if swapped:
        for f in range(n):
            if k:
                T[f, :] = metric(C, X[f])
                O[f, :] = oracle(C, X[f])
    else:
        for c in range(k):
            if n:
                T[:, c] = metric(X, C[c])
                O[:, c] = oracle(X, C[c])
    return T, O


def table_json(T):
    return [[frac(v) for v in row] for row in T]


RET_STYLES = ('fresh', 'view', 'buffer', 'memo', 'libout')


class VariantMetric:
    """How a metric hands its result back (the VALUES are those of the base metric):
    fresh  - a new array per call (fancy indexing / the kernel's own allocation)
    view   - table metric only: a column VIEW of a Fortran-ordered float table precomputed per data set
             (`tables` must survive every call byte for byte)
    buffer - writes into ONE reused buffer per data-set length and returns it
    memo   - memoising: the same stored array for the same (data set, point)
    libout - the library's own `functools.partial(libdist.euclidean|manhattan, out=buf)`
    `ret_dtype` float32: python variants return float32 arrays."""

    def __init__(self, case, base):
        self.case, self.base = case, base
        self.style = case.get('ret', 'fresh')
        self.dt = np.dtype(case.get('ret_dtype', 'float64'))
        self.tables, self.bufs, self.memo, self.keep = {}, {}, {}, []
        if self.style == 'libout':
            from enspara.geometry.libdist import euclidean, manhattan
            self.lib = euclidean if case['metric'] == 'euclidean' else manhattan

    def __call__(self, X, y):
        st = self.style
        if st == 'fresh':
            return np.asarray(self.base(X, y)).astype(self.dt)
        if st == 'view':
            key = id(X)
            if key not in self.tables:
                self.keep.append(X)
                self.tables[key] = (X, self._table_for(X))
            return self.tables[key][1][:, int(np.asarray(y)[0])]          # a view into the table
        if st == 'buffer':
            buf = self.bufs.setdefault(len(X), np.empty(len(X), dtype=self.dt))
            buf[:] = self.base(X, y)
            return buf
        if st == 'libout':
            buf = self.bufs.setdefault(len(X), np.empty(len(X), dtype=np.float64))
            return self.lib(X, y, out=buf)
        key = (id(X), np.asarray(y).tobytes())
        if key not in self.memo:
            self.keep.append(X)
            self.memo[key] = np.asarray(self.base(X, y)).astype(self.dt)
        return self.memo[key]

    def _table_for(self, X):
        D = np.array(self.case['D'], dtype=float)
        if 'P' in self.case:
            D = D + np.array(self.case['P'], dtype=float) * 2.0 ** -20
        D = D * 2.0 ** self.case.get('scale_exp', 0)
        return np.asfortranarray(D[np.asarray(X)[:, 0].astype(int), :].astype(self.dt))

    def intact(self):
        """every table the metric handed out views of still holds the metric's values"""
        return all(t.tobytes() == self._table_for(X).tobytes() for X, t in self.tables.values())

    def through(self, T):
        """the values the code sees: the base table through the return dtype"""
        return np.asarray(T).astype(self.dt).astype(np.float64)


def ret_tags(case, prefix):
    if 'ret' not in case and 'ret_dtype' not in case:
        return []
    return [prefix + ':returns=' + case.get('ret', 'fresh'), prefix + ':ret_dtype=' + case.get('ret_dtype', 'float64')]


def partial_libout(case, n_out):
    """the library's documented in-place form, bound with functools.partial"""
    from functools import partial
    from enspara.geometry.libdist import euclidean, manhattan
    lib = euclidean if case['metric'] == 'euclidean' else manhattan
    return partial(lib, out=np.empty(n_out, dtype=np.float64))



def nearest_ok(O, a, d, scale=1.0):
    """the property's words: every frame has a center at minimal distance and reports exactly it"""
    n, k = O.shape
    for f in range(n):
        m = O[f].min()
        if not (0 <= int(a[f]) < k):
            return 'label %r of frame %d is not a center index' % (a[f], f)
        if not close(O[f, int(a[f])], m, scale=scale):
            return 'frame %d assigned to center %d at distance %r, minimum is %r' % (f, a[f], O[f, int(a[f])], m)
        if not close(d[f], m, scale=scale):
            return 'frame %d reports distance %r, minimal distance is %r' % (f, d[f], m)
    return None


def centers_ok(a, d, got):
    """per label present (ascending) a member frame of smallest distance"""
    a = np.asarray(a)
    d = np.asarray(d, dtype=np.float64)
    labels = sorted(set(ints(a)))
    if len(got) != len(labels):
        return 'got %d center indices for %d labels present' % (len(got), len(labels))
    for lab, m in zip(labels, got):
        m = int(m)
        if not (0 <= m < len(a)) or int(a[m]) != lab:
            return 'center index %d is not a member of label %d' % (m, lab)
        best = float(d[a == lab].min())
        if float(d[m]) != best:      # the distances are data: exact comparison
            return 'center index %d of label %d has distance %r, smallest is %r' % (m, lab, d[m], best)
    return None


# ----------------------------------------------------------------------------- generators

def gen_metric(rng, case, nmax_ids=7):
    r = rng.random()
    if r < 0.5:
        N = int(rng.integers(1, nmax_ids + 1))
        D = rng.integers(0, 4, size=(N, N))
        sym = bool(rng.random() < 0.5)
        if sym:
            D = np.triu(D) + np.triu(D, 1).T
        case.update(metric='table', D=D.tolist(), N=N, symmetric=sym or bool((D == D.T).all()))
    else:
        case.update(metric='euclidean' if r < 0.75 else 'manhattan', dim=int(rng.integers(1, 4)),
                    dtype=DTYPES[int(rng.integers(0, len(DTYPES)))], symmetric=True)


def gen_rows(rng, case, m):
    if case['metric'] == 'table':
        return [[int(v)] for v in rng.integers(0, case['N'], size=m)]
    return rng.integers(-2, 3, size=(m, case['dim'])).tolist()


def gen_assign(rng):
    case = {'kind': 'assign'}
    gen_metric(rng, case)
    n = int(rng.choice([0, 1, 1, 2, 2, 3, 3, 4, 5, 6, 8]))
    mode = rng.random()
    if mode < 0.3:
        k = n
    elif mode < 0.65:
        k = n + int(rng.integers(1, 4))
    else:
        k = int(rng.integers(0, max(n, 1) + 1)) if rng.random() < 0.15 else int(rng.integers(1, max(n, 2)))
    case.update(X=gen_rows(rng, case, n), C=gen_rows(rng, case, k),
                wrapper=['list', 'ndarray', 'xyz', 'xyz'][int(rng.integers(0, 4))])
    return case


def gen_predict(rng):
    case = {'kind': 'predict'}
    gen_metric(rng, case)
    nfit = int(rng.integers(1, 9))
    k = int(rng.integers(1, nfit + 1))
    m = int(rng.choice([0, 1, 2, k, max(k - 1, 0), k + 1, k + 3, 6]))
    est = ['KCenters', 'KCenters', 'KCenters', 'KHybrid', 'KMedoids'][int(rng.integers(0, 5))]
    if est != 'KCenters' and case['metric'] == 'table':
        # k-medoids asserts that a center is at distance 0 from itself
        case['D'] = [[0 if i == j else v for j, v in enumerate(row)] for i, row in enumerate(case['D'])]
    case.update(X=gen_rows(rng, case, nfit), Y=gen_rows(rng, case, m), k=k, est=est,
                seed=int(rng.integers(0, 2 ** 31 - 1)))
    if est == 'KCenters' and rng.random() < 0.3:
        case['radius'] = float(rng.integers(0, 3))
    return case


def gen_find(rng):
    n = int(rng.choice([0, 1, 2, 3, 4, 5, 6, 8, 10]))
    nl = int(rng.integers(1, 5))
    labels = rng.choice(np.arange(-2, 7), size=nl, replace=False)
    a = [int(v) for v in rng.choice(labels, size=n)]
    dk = rng.random()
    if dk < 0.6:
        d = [float(v) for v in rng.integers(0, 3, size=n)]
    elif dk < 0.8:
        d = [float(v) / 4 for v in rng.integers(0, 9, size=n)]
    else:
        d = [float('inf') if rng.random() < 0.4 else float(v) for v in rng.integers(0, 3, size=n)]
    case = {'kind': 'find', 'a': a, 'd': [None if np.isinf(v) else v for v in d]}
    if rng.random() < 0.04:
        case['d'] = case['d'] + [0.0]     # DataInvalid branch
    return case


def gen_lens(rng):
    r = rng.random()
    T = int(rng.integers(1, 6))
    if r < 0.3:
        L = int(rng.integers(1, 5))
        return [L] * T, 'equal'
    if r < 0.4:
        return [int(rng.integers(1, 7))], 'single'
    if r < 0.5:
        return [1] * T, 'all-len1'
    if r < 0.93:
        lens = [int(rng.integers(1, 6)) for _ in range(T)]
        if rng.random() < 0.5:
            lens[int(rng.integers(0, T))] = 1
        return lens, 'mixed'
    lens = [int(rng.integers(0, 4)) for _ in range(T)]
    lens[int(rng.integers(0, T))] = 0
    return lens, 'zero-length'


def gen_partition(rng):
    lens, how = gen_lens(rng)
    n = sum(lens)
    starts = np.concatenate([[0], np.cumsum(lens)])[:-1]
    bounds = []
    for s, L in zip(starts, lens):
        if L > 0:
            bounds += [int(s), int(s + L - 1)]
    rest = [int(v) for v in rng.integers(0, max(n, 1), size=int(rng.integers(0, 4)))] if n else []
    ci = bounds + rest
    if rng.random() < 0.7:
        ci = [ci[i] for i in rng.permutation(len(ci))]
    ci = ci[:int(rng.integers(1, len(ci) + 1))] if ci and rng.random() < 0.4 else ci
    case = {'kind': 'partition', 'lens': lens, 'lens_how': how,
            'a': [int(v) for v in rng.integers(0, 4, size=n)],
            'd': [float(v) / 2 for v in rng.integers(0, 7, size=n)],
            'ci': ci, 'lens_type': ['list', 'int64', 'int32'][int(rng.integers(0, 3))],
            'ci_type': ['list', 'int64', 'int64', 'int32'][int(rng.integers(0, 4))], 'valid': True}
    r = rng.random()
    if r < 0.04 and n:
        case['ci'] = case['ci'] + [n, n + 2, -1]      # outside the property: what the code does
        case['valid'] = False
        case['invalid'] = 'index-out-of-range'
    elif r < 0.08:
        case['a'] = case['a'] + [0]
        case['d'] = case['d'] + [0.0]
        case['valid'] = False
        case['invalid'] = 'sum-mismatch'
    return case


def gen_plist(rng):
    lens, how = gen_lens(rng)
    n = sum(lens)
    case = {'kind': 'plist', 'lens': lens, 'lens_how': how, 'l': [int(v) for v in rng.integers(-3, 9, size=n)],
            'as_array': bool(rng.random() < 0.5)}
    if rng.random() < 0.06:
        case['l'] = case['l'] + [1] * int(rng.integers(1, 3))
    return case


def gen_pidx(rng):
    lens, how = gen_lens(rng)
    n = sum(lens)
    inds = [int(v) for v in rng.integers(0, max(n, 1), size=int(rng.integers(0, 8)))] if n else []
    case = {'kind': 'pidx', 'lens': lens, 'lens_how': how, 'inds': inds, 'valid': True,
            'inds_type': ['list', 'int64', 'int64', 'int32'][int(rng.integers(0, 4))],
            'lens_type': ['list', 'int64', 'int32'][int(rng.integers(0, 3))]}
    if rng.random() < 0.08:
        case['inds'] = inds + [n, -1, n + 3]
        case['valid'] = False
    return case


def gen_batches(rng):
    T = int(rng.integers(0, 8))
    return {'kind': 'batches', 'lens': [int(v) for v in rng.integers(0, 7, size=T)],
            'batch_size': int(rng.integers(0, 13))}


def gen_reassign(rng, force_first_full=False):
    T = int(rng.integers(1, 5))
    lens = [int(v) for v in rng.integers(1, 5, size=T)]
    mx = max(lens)
    if force_first_full:
        lens[0] = mx
        b = mx
    else:
        b = int(mx + rng.integers(0, 6))
    n_atoms = int(rng.integers(3, 6))
    k = int(rng.integers(1, 5))
    return {'kind': 'reassign', 'lens': lens, 'batch_size': b, 'n_atoms': n_atoms, 'k': k,
            'centers_as': 'list',
            'coords_seed': int(rng.integers(0, 2 ** 31 - 1))}



# ----------------------------------------------------------------------------- blind-spot families
# (size boundaries of narrow integer dtypes, dtype/container variety of every argument, power-of-two
#  scales and near-ties, degenerate structure, batch sizes on every boundary)

def gen_assign_line(rng, n, k, wrapper, dtype='float64', metric='euclidean'):
    """k distinct centers on a line, frames sitting on (or next to) chosen centers: labels reach k-1"""
    picks = rng.integers(0, k, size=n)
    if n:
        picks[0] = k - 1
        picks[-1] = max(k - 2, 0)
    return {'kind': 'assign', 'family': 'line-n%d-k%d' % (n, k), 'metric': metric, 'dim': 1, 'dtype': dtype,
            'symmetric': True, 'X': [[int(v)] for v in picks], 'C': [[int(c)] for c in range(k)],
            'wrapper': wrapper}


def gen_assign_scaled(rng):
    case = gen_assign(rng)
    r = rng.random()
    case['family'] = 'scale-near-tie'
    case['scale_exp'] = int(rng.choice([-30, 30, -10, 20]))
    if case['metric'] == 'table':
        if r < 0.7:
            N = case['N']
            P = rng.integers(0, 3, size=(N, N))
            if case['symmetric']:
                P = np.triu(P) + np.triu(P, 1).T
            case['P'] = P.tolist()
    else:
        case['dtype'] = 'float64' if rng.random() < 0.6 else 'float32'
    return case


def gen_assign_variety(rng):
    case = gen_assign(rng)
    case['family'] = 'layout-keyword'
    if case['metric'] != 'table':
        case['layout'] = ['F', 'strided', 'C'][int(rng.integers(0, 3))]
    case['kwargs'] = bool(rng.random() < 0.5)
    return case


def gen_assign_degenerate(rng):
    """all frames equidistant from all centers / one frame / one center / identical frames"""
    how = ['equidistant', 'one-frame', 'one-center', 'identical-frames'][int(rng.integers(0, 4))]
    N = int(rng.integers(1, 6))
    v = int(rng.integers(0, 4))
    D = np.full((N, N), v) if how == 'equidistant' else rng.integers(0, 4, size=(N, N))
    n = 1 if how == 'one-frame' else int(rng.integers(1, 6))
    k = 1 if how == 'one-center' else int(rng.integers(1, 8))
    X = [[int(x)] for x in rng.integers(0, N, size=n)]
    if how == 'identical-frames':
        X = [X[0]] * n
    return {'kind': 'assign', 'family': 'degenerate-' + how, 'metric': 'table', 'D': D.tolist(), 'N': N,
            'symmetric': bool((D == D.T).all()), 'X': X, 'C': [[int(x)] for x in rng.integers(0, N, size=k)],
            'wrapper': ['list', 'ndarray', 'xyz'][int(rng.integers(0, 3))]}


def gen_find_variety(rng, n=None):
    """narrow / unsigned label dtypes, float32 distances, python lists, scaled distances, near-ties,
    a label with a single member at the global maximum distance, all distances equal"""
    n = int(rng.choice([1, 2, 3, 5, 8, 12])) if n is None else n
    nl = int(rng.integers(1, 5))
    labels = rng.choice(np.arange(0, 9), size=nl, replace=False)
    a = [int(v) for v in rng.choice(labels, size=n)]
    d = [float(v) for v in rng.integers(0, 4, size=n)]
    case = {'kind': 'find', 'family': 'dtype-scale-degenerate', 'a': a, 'd': d,
            'a_dtype': ['int64', 'int32', 'int16', 'int8', 'uint8', 'list'][int(rng.integers(0, 6))],
            'd_dtype': 'float32' if rng.random() < 0.5 else 'float64'}
    r = rng.random()
    if r < 0.35 and n >= 2:
        # one label gets exactly one member, placed at the global maximum distance
        lone = int(max(labels) + 1)
        pos = int(rng.integers(0, n))
        case['a'] = [lone if i == pos else (x if x != lone else int(labels[0])) for i, x in enumerate(a)]
        case['d'] = [9.0 if i == pos else v for i, v in enumerate(d)]
        case['family'] = 'single-member-at-global-max'
    elif r < 0.5:
        case['d'] = [float(d[0])] * n
        case['family'] = 'all-equidistant'
    elif r < 0.8:
        case['scale_exp'] = int(rng.choice([-30, 30]))
        if rng.random() < 0.6 and case['d_dtype'] == 'float64':
            case['P'] = [int(v) for v in rng.integers(0, 3, size=n)]
        case['family'] = 'scale-near-tie'
    return case


def gen_find_big(rng, n, a_dtype):
    """more frames than a narrow dtype can index; the minimal-distance member of a label sits late"""
    nl = int(rng.integers(1, 4))
    a = rng.integers(0, nl, size=n)
    d = rng.integers(1, 4, size=n).astype(float)
    late = rng.integers(max(n - 40, 0), n, size=nl)
    for lab, pos in enumerate(late):
        a[pos] = lab
        d[pos] = 0.0
    return {'kind': 'find', 'family': 'frames-%d' % n, 'a': [int(v) for v in a], 'd': [float(v) for v in d],
            'a_dtype': a_dtype, 'd_dtype': 'float64'}


def gen_partition_variety(rng):
    case = gen_partition(rng)
    case['family'] = 'dtype-container'
    case['a_dtype'] = ['int64', 'int32', 'int16', 'uint8'][int(rng.integers(0, 4))]
    case['d_dtype'] = 'float32' if rng.random() < 0.6 else 'float64'
    case['lens_type'] = ['tuple', 'int32', 'list', 'int64'][int(rng.integers(0, 4))]
    case['ci_type'] = ['tuple', 'int32', 'list', 'int64'][int(rng.integers(0, 4))]
    case['kwargs'] = bool(rng.random() < 0.5)
    return case


def gen_partition_big(rng, how):
    if how == 'many-trajectories':
        T = int(rng.integers(257, 330))
        lens = [int(v) for v in rng.integers(1, 4, size=T)]
        if rng.random() < 0.4:
            lens = [2] * T
    else:                       # more than 65535 frames in few trajectories
        lens = [int(30000 + rng.integers(0, 9)), int(35600 + rng.integers(0, 9)), 1, int(rng.integers(1, 5))]
    n = sum(lens)
    starts = np.concatenate([[0], np.cumsum(lens)])[:-1]
    ci = [int(starts[-1]), int(n - 1), int(starts[len(lens) // 2]), int(starts[-2] + lens[-2] - 1), 0] + \
        [int(v) for v in rng.integers(max(n - 300, 0), n, size=4)]
    return {'kind': 'partition', 'family': 'big-' + how, 'lens': lens, 'lens_how': how,
            'a': [int(v) for v in rng.integers(0, 4, size=n)], 'd': [float(v) / 2 for v in rng.integers(0, 7, size=n)],
            'ci': ci, 'lens_type': ['list', 'int64', 'int32'][int(rng.integers(0, 3))],
            'ci_type': ['list', 'int64', 'int32'][int(rng.integers(0, 3))], 'valid': True}


def gen_pidx_big(rng, how):
    c = gen_partition_big(rng, how)
    return {'kind': 'pidx', 'family': 'big-' + how, 'lens': c['lens'], 'lens_how': how, 'inds': c['ci'] + c['ci'][::-1],
            'valid': True, 'inds_type': ['list', 'int64', 'int32', 'tuple'][int(rng.integers(0, 4))],
            'lens_type': ['list', 'int64', 'int32', 'tuple'][int(rng.integers(0, 4))]}


def gen_plist_variety(rng):
    case = gen_plist(rng)
    case['family'] = 'dtype-container'
    case['lens_type'] = ['tuple', 'int32', 'int64', 'list'][int(rng.integers(0, 4))]
    if case['as_array']:
        case['l_dtype'] = ['int64', 'int32', 'int16', 'float32'][int(rng.integers(0, 4))]
    else:
        case['l_type'] = 'tuple' if rng.random() < 0.5 else 'list'
    return case


def gen_batches_boundaries(rng):
    """one list of lengths, EVERY batch size from 0 to total+2"""
    T = int(rng.integers(1, 6))
    lens = [int(v) for v in rng.integers(1, 6, size=T)]
    return [{'kind': 'batches', 'family': 'every-batch-size', 'lens': lens, 'batch_size': b}
            for b in range(0, sum(lens) + 3)]


def gen_reassign_boundary(rng):
    """batch size on a boundary of the trajectory lengths (and >= the longest, the code's guard)"""
    case = gen_reassign(rng)
    lens = case['lens']
    cs = np.cumsum(lens).tolist()
    cands = sorted(set(b for b in [max(lens), max(lens) + 1, lens[0], lens[0] + 1, sum(lens), sum(lens) + 1] +
                       cs + [c + 1 for c in cs] if b >= max(lens)))
    case['batch_size'] = int(cands[int(rng.integers(0, len(cands)))])
    case['family'] = 'batch-size-on-boundary'
    return case


def gen_predict_many_centers(rng):
    """more than 255 centers: distinct points on a line, k-centers picks k of them"""
    npts = int(rng.integers(300, 360))
    k = int(rng.integers(257, 290))
    pts = rng.permutation(npts)
    ys = [int(v) for v in rng.integers(0, npts, size=int(rng.integers(1, 12)))]
    return {'kind': 'predict', 'family': 'centers>255', 'metric': 'euclidean', 'dim': 1, 'symmetric': True,
            'dtype': ['float64', 'int32', 'int16'][int(rng.integers(0, 3))],
            'X': [[int(v)] for v in pts], 'Y': [[v] for v in ys], 'k': k, 'est': 'KCenters',
            'seed': int(rng.integers(0, 2 ** 31 - 1))}


def gen_assign_md(rng):
    return {'kind': 'assign_md', 'family': 'mdtraj-rmsd', 'n': int(rng.integers(1, 5)), 'k': int(rng.integers(1, 7)),
            'n_atoms': int(rng.integers(4, 7)), 'centers_as': ['trajectory', 'list'][int(rng.integers(0, 2))],
            'coords_seed': int(rng.integers(0, 2 ** 31 - 1))}


def add_return_style(rng, case, allow_libout=True):
    """how the metric hands its result back (see VariantMetric)"""
    if case['metric'] == 'table':
        case['ret'] = ['view', 'view', 'buffer', 'memo', 'fresh'][int(rng.integers(0, 5))]
        case['ret_dtype'] = 'float32' if rng.random() < 0.35 else 'float64'
    else:
        styles = ['buffer', 'memo'] + (['libout', 'libout'] if allow_libout else [])
        case['ret'] = styles[int(rng.integers(0, len(styles)))]
        if case['ret'] == 'libout' and rng.random() < 0.6:
            case['partial'] = True
    case['family'] = 'metric-return-style'
    return case


def gen_assign_ret(rng):
    case = gen_assign(rng)
    while len(case['C']) < 2 or len(case['X']) < 1:
        case = gen_assign(rng)
    return add_return_style(rng, case)


def gen_predict_ret(rng):
    case = gen_predict(rng)
    case['est'] = 'KCenters'
    case.pop('radius', None)
    return add_return_style(rng, case, allow_libout=True)


def gen_warm(rng):
    case = gen_assign(rng)
    while len(case['C']) < 1 or len(case['X']) < 1:
        case = gen_assign(rng)
    case['kind'] = 'warm'
    case.pop('wrapper', None)
    if rng.random() < 0.75:
        add_return_style(rng, case)
    else:
        case['family'] = 'warm-start'
    return case


def gen_partition_empty_mismatch(rng):
    """empty flat arrays with lengths that do not sum to 0 (DataInvalid), equal and unequal"""
    T = int(rng.integers(1, 4))
    lens = [int(v) for v in rng.integers(0, 3, size=T)]
    if sum(lens) == 0:
        lens[int(rng.integers(0, T))] = int(rng.integers(1, 3))
    return {'kind': 'partition', 'family': 'empty-data-with-lengths', 'lens': lens, 'lens_how': 'empty-mismatch',
            'a': [], 'd': [], 'ci': [], 'lens_type': ['list', 'int64'][int(rng.integers(0, 2))], 'ci_type': 'list',
            'valid': False, 'invalid': 'sum-mismatch'}


def blind_spot_cases(ctx):
    rng = ctx.rng
    q = ctx.n
    out = []
    # 1. size boundaries
    big = 300 if ctx.thorough else 24        # frames; the centers always exceed 256
    for _ in range(q(1, 6)):
        out.append(gen_assign_line(rng, big, 300, 'ndarray', ['float64', 'int16', 'int32'][int(rng.integers(0, 3))]))
        out.append(gen_assign_line(rng, min(big, 260), 300, 'xyz', ['float64', 'float32'][int(rng.integers(0, 2))],
                                   'manhattan'))
        out.append(gen_assign_line(rng, 5, 260, 'list'))
    c = gen_assign_line(rng, 3, 66000, 'xyz', 'int32')                   # per-frame branch, labels >= 65536
    c['model_skip'] = not ctx.thorough
    out.append(c)
    if ctx.thorough:
        out.append(gen_assign_line(rng, 3, 66000, 'ndarray', 'float64'))  # sweep over 66000 centers
        out.append(gen_assign_line(rng, 66000, 3, 'list', 'float64'))
    for dt in ('int64', 'int32', 'int16', 'uint8', 'int8'):
        out.append(gen_find_big(rng, 300, dt))
    out.append(gen_find_big(rng, 66000, 'int64'))
    out.append(gen_find_big(rng, 66000, 'int16'))
    if ctx.thorough:
        out.append(gen_find_big(rng, 66000, 'int32'))
        out.append(gen_find_big(rng, 66000, 'uint8'))
    out += [gen_partition_big(rng, 'many-trajectories') for _ in range(q(2, 20))]
    for _ in range(q(1, 4)):
        c = gen_partition_big(rng, 'frames>65535')
        c['model_skip'] = not ctx.thorough
        out.append(c)
    out += [gen_pidx_big(rng, 'many-trajectories') for _ in range(q(2, 20))]
    out += [gen_pidx_big(rng, 'frames>65535') for _ in range(q(1, 4))]
    out += [gen_predict_many_centers(rng) for _ in range(q(1, 8))]
    out.append({'kind': 'batches', 'family': 'many-trajectories',
                'lens': [int(v) for v in rng.integers(1, 4, size=300)], 'batch_size': int(rng.integers(3, 9))})
    # 2. dtype / container variety of every argument
    out += [gen_find_variety(rng) for _ in range(q(250, 4000))]
    out += [gen_partition_variety(rng) for _ in range(q(200, 3000))]
    out += [gen_plist_variety(rng) for _ in range(q(100, 1000))]
    out += [gen_assign_variety(rng) for _ in range(q(200, 3000))]
    out += [gen_assign_md(rng) for _ in range(q(12, 150))]
    for c in [gen_pidx(rng) for _ in range(q(100, 1000))]:
        c.update(family='dtype-container', inds_type=['tuple', 'int32', 'int64', 'list'][int(rng.integers(0, 4))],
                 lens_type=['tuple', 'int32', 'int64', 'list'][int(rng.integers(0, 4))])
        out.append(c)
    # 3. scales and near-ties
    out += [gen_assign_scaled(rng) for _ in range(q(300, 4000))]
    # 4. degenerate structure
    out += [gen_assign_degenerate(rng) for _ in range(q(150, 2000))]
    # 6. batch sizes on every boundary
    for _ in range(q(20, 300)):
        out += gen_batches_boundaries(rng)
    out += [gen_reassign_boundary(rng) for _ in range(q(3, 60))]
    # 5b. metrics that keep or reuse the array they return (views of a table, one reused buffer,
    #     partial(libdist.euclidean, out=buf), memoisation, float32 results) - same objects called twice
    out += [gen_assign_ret(rng) for _ in range(q(500, 5000))]
    out += [gen_predict_ret(rng) for _ in range(q(150, 1500))]
    out += [gen_warm(rng) for _ in range(q(200, 2000))]
    out += [gen_partition_empty_mismatch(rng) for _ in range(q(20, 100))]
    return out


# ----------------------------------------------------------------------------- per-kind processing
# each do_<kind>(ctx, case) runs the real code, judges it, and returns (request, compare) where
# compare(model_response) reports model/implementation differences.

def do_assign(ctx, case):
    from enspara.cluster.util import assign_to_nearest_center
    base_metric, oracle = make_metric(case)
    n, k = len(case['X']), len(case['C'])
    X = data_array(case['X'], case)
    C = data_array(case['C'], case)
    centers = wrap_centers(C, case['wrapper'])
    perframe = case['wrapper'] == 'xyz' and k > n
    vm = VariantMetric(case, base_metric)
    metric = vm
    if case.get('ret') == 'libout' and case.get('partial'):
        metric = partial_libout(case, k if perframe else n)

    def real_call():
        if case.get('kwargs'):
            return call_real(assign_to_nearest_center, distance_method=metric, cluster_centers=centers,
                             trajectory=X)
        return call_real(assign_to_nearest_center, X, centers, metric)
    r = real_call()
    if r[0] == 'error':
        ctx.case(case, nontrivial=n >= 1 and k >= 2, tags=['assign', 'assign:raised'])
        ctx.violation('assign_to_nearest_center raised %s (n=%d frames, k=%d centers)' % (r[2], n, k), case)
        return None
    try:
        a, d = r[1]
    except Exception:  # noqa
        ctx.violation('assign_to_nearest_center did not return (assignments, distances)', case)
        return None
    T, O = tables(base_metric, oracle, X, C, perframe)
    T, O = vm.through(T), vm.through(O)
    ties = bool(n and k and ((O == O.min(axis=1, keepdims=True)).sum(axis=1) > 1).any())
    ctx.case(case, nontrivial=n >= 1 and k >= 2,
             tags=['assign', 'assign:branch=' + ('perframe' if perframe else 'sweep')] + ret_tags(case, 'assign') +
                  [
                   'assign:' + ('k<n' if k < n else 'k=n' if k == n else 'k>n'),
                   'assign:metric=' + case['metric'], 'assign:centers=' + case['wrapper']] +
                  (['assign:ties'] if ties else []) + (['assign:k=0'] if k == 0 else []) +
                  (['assign:dtype=' + case['dtype']] if 'dtype' in case else []) + fam(case) +
                  (['assign:labels>=256'] if n and k > 256 and int(np.max(a)) >= 256 else []) +
                  (['assign:labels>=65536'] if n and k > 65536 and int(np.max(a)) >= 65536 else []) +
                  (['assign:scale=2^%d' % case['scale_exp']] if case.get('scale_exp') else []) +
                  (['assign:near-ties'] if 'P' in case else []) +
                  (['assign:layout=' + case['layout']] if 'layout' in case else []) +
                  (['assign:by-keyword'] if case.get('kwargs') else []))
    if not (isinstance(a, np.ndarray) and isinstance(d, np.ndarray) and a.shape == (n,) and d.shape == (n,)
            and np.issubdtype(a.dtype, np.integer) and d.dtype == np.float64):
        ctx.violation('assign_to_nearest_center returned arrays of the wrong shape/dtype', case)
        return None
    if k >= 1:
        bad = nearest_ok(O, a, d, case_scale(case))
        if bad:
            # an asymmetric table read in the other orientation = the other branch was taken
            if not case['symmetric']:
                T2, O2 = tables(base_metric, oracle, X, C, not perframe)
                if nearest_ok(vm.through(O2), a, d, case_scale(case)) is None:
                    ctx.disagreement('assign_to_nearest_center took the other branch (k=%d, n=%d, centers=%s)'
                                     % (k, n, case['wrapper']), case)
                    return None
            ctx.violation('assign_to_nearest_center: ' + bad, case)
            return None
    if 'ret' in case and k >= 1:
        # the metric's own storage must survive, and the same call on the same objects must give the
        # same (correct) answer again
        what = None if vm.intact() else 'the distance table the metric returns views of was overwritten'
        r2 = real_call()
        if what is None and not vm.intact():
            what = 'the distance table the metric returns views of was overwritten'
        if what is None:
            if r2[0] == 'error':
                what = 'a second call on the same objects raised %s' % r2[2]
            else:
                a2, d2 = r2[1]
                bad2 = nearest_ok(O, a2, d2, case_scale(case))
                if bad2:
                    what = 'second call on the same objects (metric returns=%s): %s' % (case['ret'], bad2)
                elif not (np.array_equal(a2, a) and np.array_equal(d2, d)):
                    what = 'a second call on the same objects gives a different result'
        if what:
            ctx.violation('assign_to_nearest_center: ' + what, case)
            return None
    if case.get('model_skip'):
        ctx.tag('model-skipped-assign-k%d' % k)
        return None
    req = {'op': 'C10.assign', 'n': n, 'k': k, 'has_xyz': case['wrapper'] == 'xyz', 'table': table_json(T)}

    def compare(r):
        ok = 'ok' in r and r['ok']['labels'] == ints(a) and len(r['ok']['dists']) == n and \
            all(erat_eq(m, x) for m, x in zip(r['ok']['dists'], d))
        if not ok:
            ctx.disagreement('Model.Assign.assignNearest vs assign_to_nearest_center',
                             dict(case, model=r, impl={'labels': ints(a), 'dists': [frac(x) for x in d]}))
    return req, compare


def fit_estimator(case, metric=None):
    from enspara.cluster import KCenters, KHybrid, KMedoids
    X = data_array(case['X'], case)
    np.random.seed(case['seed'])
    m = metric_arg(case) if metric is None else metric
    if case['est'] == 'KCenters':
        if 'radius' in case:
            est = KCenters(metric=m, n_clusters=case['k'], cluster_radius=case['radius'])
        else:
            est = KCenters(metric=m, n_clusters=case['k'])
        est.fit(X)
    elif case['est'] == 'KHybrid':
        est = KHybrid(metric=m, n_clusters=case['k'], kmedoids_updates=2)
        est.fit(X)
    else:
        est = KMedoids(metric=m, n_clusters=case['k'], n_iters=2)
        est.fit(X, cluster_center_inds=list(range(case['k'])))
    return est


def do_predict(ctx, case):
    from enspara.cluster.util import ClusterResult
    metric, oracle = make_metric(case)
    vm = VariantMetric(case, metric) if 'ret' in case else None
    try:
        with _Quiet():
            est = fit_estimator(case, vm)
        centers = est.centers_
        k = len(centers)
    except Exception as e:  # fitting is C01/C02/C09's business
        ctx.skip('fit raised %s (%s)' % (type(e).__name__, case['est']))
        return None
    Y = data_array(case['Y'], case)
    m = len(Y)
    r = call_real(est.predict, Y)
    if r[0] == 'error':
        ctx.case(case, nontrivial=m >= 1 and k >= 2, tags=['predict', 'predict:raised'])
        ctx.violation('%s.predict raised %s (m=%d frames, k=%d centers)' % (case['est'], r[2], m, k), case)
        return None
    res = r[1]
    C = [np.asarray(c) for c in centers]
    T, O = tables(metric, oracle, Y, C, False)
    if vm is not None:
        T, O = vm.through(T), vm.through(O)
    ctx.case(case, nontrivial=m >= 1 and k >= 2,
             tags=['predict', 'predict:' + case['est'], 'predict:metric=' + case['metric']] +
                  ret_tags(case, 'predict') + [
                   'predict:' + ('m<k' if m < k else 'm=k' if m == k else 'm>k')] + fam(case) +
                  (['predict:k>255'] if k > 255 else []))
    if not isinstance(res, ClusterResult):
        ctx.violation('predict did not return a ClusterResult', case)
        return None
    a, d, ci = np.asarray(res.assignments), np.asarray(res.distances), np.asarray(res.center_indices)
    if res.centers is not est.centers_:
        ctx.violation('predict does not reuse the fitted centers', case)
        return None
    if a.shape != (m,) or d.shape != (m,):
        ctx.violation('predict returned arrays of the wrong shape', case)
        return None
    if k >= 1:
        bad = nearest_ok(O, a, d, case_scale(case))
        if bad:
            ctx.violation('%s.predict: %s' % (case['est'], bad), case)
            return None
    bad = centers_ok(a, d, ci)
    if bad:
        ctx.violation('%s.predict center_indices: %s' % (case['est'], bad), case)
        return None
    if vm is not None and k >= 1:
        what = None if vm.intact() else 'the distance table the metric returns views of was overwritten'
        r2 = call_real(est.predict, Y)
        if what is None and not vm.intact():
            what = 'the distance table the metric returns views of was overwritten'
        if what is None:
            if r2[0] == 'error':
                what = 'a second predict on the same data raised %s' % r2[2]
            else:
                a2, d2 = np.asarray(r2[1].assignments), np.asarray(r2[1].distances)
                bad2 = nearest_ok(O, a2, d2, case_scale(case))
                if bad2:
                    what = 'second predict on the same data (metric returns=%s): %s' % (case['ret'], bad2)
                elif not (np.array_equal(a2, a) and np.array_equal(d2, d)
                          and np.array_equal(np.asarray(r2[1].center_indices), ci)):
                    what = 'a second predict on the same data gives a different result'
        if what:
            ctx.violation('%s.predict: %s' % (case['est'], what), case)
            return None
    req = {'op': 'C10.predict', 'n': m, 'k': k, 'has_xyz': False, 'table': table_json(T)}

    def compare(r):
        ok = 'ok' in r and r['ok']['labels'] == ints(a) and r['ok']['centers'] == ints(ci) and \
            len(r['ok']['dists']) == m and all(erat_eq(mm, x) for mm, x in zip(r['ok']['dists'], d))
        if not ok:
            ctx.disagreement('Model.Assign.predict vs %s.predict' % case['est'],
                             dict(case, model=r, impl={'labels': ints(a), 'centers': ints(ci),
                                                       'dists': [frac(x) for x in d]}))
    return req, compare


def do_find(ctx, case):
    from enspara.cluster.util import find_cluster_centers
    a_dt, d_dt = case.get('a_dtype', 'int64'), case.get('d_dtype', 'float64')
    sc = 2.0 ** case.get('scale_exp', 0)
    a64 = np.array(case['a'], dtype=np.int64)
    d64 = np.array([np.inf if v is None else v for v in case['d']], dtype=np.float64) * sc
    if 'P' in case:       # near-ties, relative 2^-20
        d64 = d64 + np.array(case['P'], dtype=np.float64) * 2.0 ** -20 * sc
    dd = d64.astype(d_dt)
    d64 = dd.astype(np.float64)          # the values the code sees (exact in float32 by construction)
    if a_dt == 'list':
        a, d = [int(v) for v in a64], [float(v) for v in d64]
    else:
        a, d = a64.astype(a_dt), dd
    mismatch = len(a64) != len(d64)
    r = call_real(find_cluster_centers, a, d)
    if r[0] == 'ok':
        try:
            out = {'ok': ints(r[1])}
        except Exception:  # noqa
            out = {'error': 'not-an-index-array'}
    else:
        out = {'error': r[1], 'text': r[2]}
    labels = sorted(set(case['a']))
    tie = single_at_max = False
    expect = []
    if not mismatch and len(a64):
        for lab in labels:
            mem = np.where(a64 == lab)[0]
            best = d64[mem].min()
            expect.append(int(mem[np.argmax(d64[mem] == best)]))
            tie = tie or int((d64[mem] == best).sum()) > 1
            single_at_max = single_at_max or (len(mem) == 1 and len(a64) > 1 and d64[mem[0]] == d64.max())
    ctx.case(case, nontrivial=len(a64) >= 1 and not mismatch,
             tags=['find', 'find:labels=%d' % min(len(labels), 9), 'find:a_dtype=' + a_dt, 'find:d_dtype=' + d_dt] +
                  (['find:ties'] if tie else []) + (['find:length-mismatch'] if mismatch else []) +
                  (['find:inf'] if None in case['d'] else []) + fam(case) +
                  (['find:single-member-at-global-max'] if single_at_max else []) +
                  (['find:center-index>=256'] if expect and max(expect) >= 256 else []) +
                  (['find:center-index>=65536'] if expect and max(expect) >= 65536 else []) +
                  (['find:scale=2^%d' % case['scale_exp']] if case.get('scale_exp') else []) +
                  (['find:near-ties'] if 'P' in case else []))
    if not mismatch:
        key = None      # (narrow label dtypes and python lists were findings once; fixed in /repo)
        if 'error' in out:
            ctx.violation('find_cluster_centers raised %s on valid input (labels %s, distances %s)'
                          % (out.get('text', out['error']), a_dt, d_dt), case, key=key)
            return None
        bad = centers_ok(a64, d64, out['ok'])
        if bad:
            ctx.violation('find_cluster_centers (labels %s, distances %s): %s' % (a_dt, d_dt, bad), case, key=key)
            return None
    out.pop('text', None)
    req = {'op': 'C10.find_centers', 'assignments': case['a'],
           'distances': [frac(v) for v in d64]}

    def compare(r):
        if r != out:
            ctx.disagreement('Model.Assign.findClusterCenters vs find_cluster_centers',
                             dict(case, model=r, impl=out))
    return req, compare


def canon_parts(x, is_float, raw=False):
    """canonical output incl. the container type; `raw`: plain python numbers (big cases judged by the
    oracle only), otherwise floats as exact [num, den]"""
    from enspara import ra

    def conv(arr):
        vals = np.asarray(arr).tolist()
        if is_float and not raw:
            return [frac(v) for v in vals]
        return vals
    if isinstance(x, ra.RaggedArray):
        return {'type': 'RaggedArray', 'data': conv(x._data),
                'lengths': ints(x.lengths), 'rows': [conv(row) for row in x._array]}
    if isinstance(x, np.ndarray):
        if x.ndim != 2:
            return {'type': 'ndarray', 'rows': None, 'ndim': int(x.ndim)}
        return {'type': 'ndarray', 'rows': [conv(row) for row in x]}
    return {'type': type(x).__name__}


def exc_kind(e):
    from enspara.exception import DataInvalid, ImproperlyConfigured
    if isinstance(e, DataInvalid):
        return 'data-invalid'
    if isinstance(e, ImproperlyConfigured):
        return 'improperly-configured'
    return {'IndexError': 'index-error', 'AttributeError': 'attribute-error',
            'ValueError': 'value-error'}.get(type(e).__name__, type(e).__name__)


def do_partition(ctx, case):
    from enspara.cluster.util import ClusterResult
    lens = case['lens']
    a = np.array(case['a'], dtype=case.get('a_dtype', 'int64'))
    d = np.array(case['d'], dtype=case.get('d_dtype', 'float64'))      # halves: exact in float32
    ci = as_container(case['ci'], case['ci_type'])
    L = as_container(lens, case['lens_type'])
    centers = object()
    res0 = ClusterResult(center_indices=ci, distances=d, assignments=a, centers=centers)
    snap = (a.tobytes(), d.tobytes())
    snap_ci, snap_L = snapshot(ci), snapshot(L)

    skip_model = bool(case.get('model_skip'))

    def canon_result(r):
        return {'ok': {'assignments': canon_parts(r.assignments, False, skip_model),
                       'distances': canon_parts(r.distances, True, skip_model),
                       'center_indices': [[int(t), int(f)] for t, f in r.center_indices]}}
    try:
        with _Quiet():
            res = res0.partition(lengths=L) if case.get('kwargs') else res0.partition(L)
        out = canon_result(res)
    except Exception as e:  # noqa
        res, out = None, {'error': exc_kind(e), 'text': '%s: %s' % (type(e).__name__, str(e)[:200])}
    # splitting preserves every value: the flat result must survive its own partition, and
    # partitioning the SAME result again must give the same answer
    preserved = None
    if res is not None:
        if res0.center_indices is not ci or snapshot(ci) != snap_ci:
            preserved = ('the flat center indices of the ClusterResult were overwritten by partition '
                         '(%s %s -> %s)' % (case['ci_type'], case['ci'], ints(res0.center_indices)))
        elif snapshot(L) != snap_L:
            preserved = 'the lengths argument was overwritten by partition'
        else:
            try:
                with _Quiet():
                    out2 = canon_result(res0.partition(L))
            except Exception as e:  # noqa
                out2 = {'error': exc_kind(e)}
            if out2 != out:
                preserved = 'partitioning the same ClusterResult a second time gives a different result'
            elif snapshot(ci) != snap_ci:
                preserved = 'the flat center indices were overwritten by the second partition'
    equal = all(x == lens[0] for x in lens)
    starts = [int(v) for v in np.concatenate([[0], np.cumsum(lens)])[:-1]]
    sset, lset = set(starts), set(s_ + l_ - 1 for s_, l_ in zip(starts, lens) if l_)
    on_first = any(i in sset for i in case['ci'])
    on_last = any(i in lset for i in case['ci'])
    ctx.case(case, nontrivial=len(a) >= 1 and case['valid'],
             tags=['partition', 'partition:' + ('square' if equal else 'ragged'),
                   'partition:lens=' + case['lens_how'], 'partition:lens_type=' + case['lens_type'],
                   'partition:ci_type=' + case['ci_type'],
                   'partition:a_dtype=' + case.get('a_dtype', 'int64'),
                   'partition:d_dtype=' + case.get('d_dtype', 'float64')] + fam(case) +
                  (['partition:trajectories>255'] if len(lens) > 255 else []) +
                  (['partition:center-index>=256'] if case['ci'] and max(case['ci']) >= 256 else []) +
                  (['partition:center-index>=65536'] if case['ci'] and max(case['ci']) >= 65536 else []) +
                  (['partition:by-keyword'] if case.get('kwargs') else []) +
                  (['partition:has-len1'] if 1 in lens else []) +
                  (['partition:center-on-first-frame'] if on_first else []) +
                  (['partition:center-on-last-frame'] if on_last else []) +
                  ([] if case['valid'] else ['partition:' + case['invalid']]))
    if case['valid'] or case.get('invalid') == 'index-out-of-range':
        what = None
        if res is None:
            if case['valid']:
                what = 'raised %s on consistent input' % out['text']
        else:
            for name, flat, part in (('assignments', a, res.assignments), ('distances', d, res.distances)):
                c = out['ok'][name]
                want_type = 'ndarray' if equal else 'RaggedArray'
                if c['type'] != want_type:
                    what = '%s is a %s, lengths %s call for %s' % (name, c['type'], lens, want_type)
                    break
                if c.get('rows') is None:
                    what = '%s is not 2-dimensional' % name
                    break
                rows = [np.asarray(r) for r in (part if c['type'] == 'ndarray' else part._array)]
                if [len(r) for r in rows] != list(lens):
                    what = '%s piece lengths %s != lengths %s' % (name, [len(r) for r in rows][:20], lens[:20])
                    break
                cat = np.concatenate(rows) if rows else np.zeros(0, dtype=flat.dtype)
                pdt = part.dtype if c['type'] == 'ndarray' else part._data.dtype
                if len(flat) and pdt != flat.dtype:
                    what = '%s pieces have dtype %s, the flat array %s' % (name, pdt, flat.dtype)
                    break
                if len(cat) != len(flat) or not np.array_equal(cat, flat):
                    what = 'concatenating the pieces of %s does not restore the flat array' % name
                    break
            if what is None and res.centers is not centers:
                what = 'centers not passed through'
            if what is None and case['valid']:
                pairs = out['ok']['center_indices']
                if len(pairs) != len(case['ci']):
                    what = '%d center indices in, %d (trajectory, frame) pairs out' % (len(case['ci']), len(pairs))
                else:
                    for i, (t, f) in zip(case['ci'], pairs):
                        if not (0 <= t < len(lens) and 0 <= f < lens[t] and starts[t] + f == i):
                            what = 'flat center index %d became (%d, %d) for lengths %s' % (i, t, f, lens)
                            break
                        if res.assignments[t][f] != a[i] or res.distances[t][f] != d[i]:
                            what = 'pair (%d, %d) does not address flat frame %d' % (t, f, i)
                            break
        if what is None and (a.tobytes(), d.tobytes()) != snap:
            what = 'flat arrays were modified'
        if what is None and case['valid']:
            what = preserved
        if what:
            ctx.violation('ClusterResult.partition: ' + what, case)
            return None
    out.pop('text', None)
    if skip_model:
        ctx.tag('model-skipped-partition-n%d' % len(a))
        return None
    req = {'op': 'C10.partition', 'assignments': case['a'], 'distances': [frac(v) for v in case['d']],
           'center_indices': case['ci'], 'lens': lens}

    def compare(r):
        if r != out:
            ctx.disagreement('Model.Assign.partition vs ClusterResult.partition',
                             dict(case, model=r, impl=out))
    return req, compare


def do_plist(ctx, case):
    from enspara.ra.ra import partition_list
    lens, l = case['lens'], case['l']
    arg = np.array(l, dtype=case.get('l_dtype', 'int64')) if case['as_array'] else \
        as_container(l, case.get('l_type', 'list'))
    larg = as_container(lens, case.get('lens_type', 'list'))
    snap = (snapshot(arg), snapshot(larg))
    try:
        got = partition_list(arg, larg)
        out = {'ok': [ints(p) for p in got]}
    except Exception as e:  # noqa
        out = {'error': exc_kind(e)}
    valid = sum(lens) == len(l)
    ctx.case(case, nontrivial=len(l) >= 1 and valid,
             tags=['plist', 'plist:lens=' + case['lens_how'],
                   'plist:lens_type=' + case.get('lens_type', 'list')] + fam(case) +
                  ([] if valid else ['plist:sum-mismatch']))
    if valid:
        if 'error' in out:
            ctx.violation('partition_list raised %s on consistent input' % out['error'], case)
            return None
        if [len(p) for p in out['ok']] != lens or [v for p in out['ok'] for v in p] != l:
            ctx.violation('partition_list: pieces do not have the given lengths / do not concatenate '
                          'back to the list', case)
            return None
        if (snapshot(arg), snapshot(larg)) != snap:
            ctx.violation('partition_list overwrote the list it partitions (values not preserved)', case)
            return None
    req = {'op': 'C10.partition_list', 'l': l, 'lens': lens}

    def compare(r):
        if r != out:
            ctx.disagreement('Model.Assign.partitionList vs partition_list', dict(case, model=r, impl=out))
    return req, compare


def do_pidx(ctx, case):
    from enspara.ra.ra import partition_indices
    lens, inds = case['lens'], case['inds']
    it = case.get('inds_type', 'int64' if case.get('as_array') else 'list')
    lt = case.get('lens_type', 'int64' if case.get('as_array') else 'list')
    arg, larg = as_container(inds, it), as_container(lens, lt)
    snap = (snapshot(arg), snapshot(larg))
    starts = [int(v) for v in np.concatenate([[0], np.cumsum(lens)])[:-1]]
    ctx.case(case, nontrivial=len(inds) >= 1 and case['valid'],
             tags=['pidx', 'pidx:lens=' + case['lens_how'], 'pidx:inds_type=' + it, 'pidx:lens_type=' + lt] +
                  fam(case) + (['pidx:trajectories>255'] if len(lens) > 255 else []) +
                  (['pidx:index>=65536'] if inds and max(inds) >= 65536 else []) +
                  ([] if case['valid'] else ['pidx:out-of-range']))

    def canon(got):
        return {'ok': [[int(t), int(f)] for t, f in got]}
    r = call_real(partition_indices, arg, larg)
    if r[0] == 'error':
        if case['valid']:
            ctx.violation('partition_indices raised %s on in-range indices' % r[2], case)
            return None
        out = {'error': r[1]}
    else:
        try:
            out = canon(r[1])
        except Exception:  # noqa
            ctx.violation('partition_indices did not return (trajectory, frame) pairs', case)
            return None
    if case['valid']:
        what = None
        if len(out['ok']) != len(inds):
            what = '%d indices in, %d pairs out' % (len(inds), len(out['ok']))
        else:
            for i, (t, f) in zip(inds, out['ok']):
                if not (0 <= t < len(lens) and 0 <= f < lens[t] and starts[t] + f == i):
                    what = 'flat index %d became (%d, %d) for lengths %s' % (i, t, f, lens)
                    break
        if what is None and (snapshot(arg), snapshot(larg)) != snap:
            what = ('the caller\'s %s of flat indices was overwritten (%s -> %s): the values are not '
                    'preserved and the same indices no longer address the same frames'
                    % (it, inds, ints(arg)))
        if what is None:
            r2 = call_real(partition_indices, arg, larg)
            if r2[0] == 'error' or canon(r2[1]) != out:
                what = 'a second call with the same arguments gives a different result'
        if what:
            ctx.violation('partition_indices: ' + what, case)
            return None
    req = {'op': 'C10.partition_indices', 'inds': inds, 'lens': lens}

    def compare(r):
        if r != out:
            ctx.disagreement('Model.Assign.partitionIndices vs partition_indices', dict(case, model=r, impl=out))
    return req, compare


def do_batches(ctx, case):
    from enspara.cluster.util import compute_batches
    lens, b = case['lens'], case['batch_size']
    r = call_real(compute_batches, list(lens), b)
    if r[0] == 'error':
        ctx.case(case, nontrivial=len(lens) >= 1, tags=['batches', 'batches:raised'])
        ctx.violation('compute_batches raised %s' % r[2], case)
        return None
    out = {'ok': [ints(x) for x in r[1]]}
    ctx.case(case, nontrivial=len(lens) >= 1,
             tags=['batches', 'batches:n=%d' % min(len(out['ok']), 9)] + fam(case) +
                  (['batches:trajectories>255'] if len(lens) > 255 else []) +
                  (['batches:size-on-prefix-sum'] if b in set(np.cumsum(lens).tolist()) else []) +
                  (['batches:size-on-prefix-sum+1'] if (b - 1) in set(np.cumsum(lens).tolist()) else []) +
                  (['batches:first-empty'] if lens and not out['ok'][0] else []))
    flat = [t for x in out['ok'] for t in x]
    if flat != list(range(len(lens))):
        # batch reassignment would skip / repeat / reorder trajectories
        ctx.violation('compute_batches: batches do not concatenate to 0..m-1 in order', case)
        return None
    req = {'op': 'C10.compute_batches', 'lens': lens, 'batch_size': b}

    def compare(r):
        if r != out:
            ctx.disagreement('Model.Assign.computeBatches vs compute_batches', dict(case, model=r, impl=out))
    return req, compare


def do_reassign(ctx, case):
    import mdtraj as md
    import psutil
    from functools import partial
    from enspara.cluster import util
    rng = np.random.default_rng(case['coords_seed'])
    lens, b, n_atoms, k = case['lens'], case['batch_size'], case['n_atoms'], case['k']
    top = md.Topology()
    ch = top.add_chain()
    for _ in range(n_atoms):
        top.add_atom('CA', md.element.carbon, top.add_residue('ALA', ch))
    tmp = tempfile.mkdtemp(prefix='c10_reassign_')
    try:
        coords, files = [], []
        for i, L in enumerate(lens):
            xyz = (rng.integers(-8, 9, size=(L, n_atoms, 3)) / 4.0).astype(np.float32)
            coords.append(xyz)
            fn = os.path.join(tmp, 't%d.h5' % i)
            md.Trajectory(xyz, top).save_hdf5(fn)
            files.append(fn)
        cxyz = (rng.integers(-8, 9, size=(k, n_atoms, 3)) / 4.0).astype(np.float32)
        # exactly what enspara.cluster.util.reassign does with a trajectory of centers: slice first, then
        # pre-center every single-frame trajectory (slicing an already centered md.Trajectory would hand
        # every slice the rmsd traces of frame 0 - an mdtraj quirk, not enspara's business)
        ctrj = md.Trajectory(cxyz.copy(), top)
        centers = [ctrj.slice(i, copy=False) for i in range(k)]
        for c in centers:
            c.center_coordinates()
        targets = [(f, top, np.arange(n_atoms)) for f in files]
        bytes_per_frame = n_atoms * 3 * 4
        frac_mem = (b + 0.5) * bytes_per_frame / psutil.virtual_memory().total
        real_b = util.determine_batch_size(n_atoms, 4, frac_mem)[0]
        if real_b != b:
            ctx.skip('could not steer batch_size through frac_mem')
            return None
        first_full = lens[0] >= b
        ctx.case(case, nontrivial=True,
                 tags=['reassign', 'reassign:centers=' + case['centers_as']] + fam(case) +
                      (['reassign:size=max-length'] if b == max(lens) else []) +
                      (['reassign:size=total'] if b == sum(lens) else []) +
                      (['reassign:size=total+1'] if b == sum(lens) + 1 else []) +
                      (['reassign:size-on-prefix-sum'] if b in set(np.cumsum(lens).tolist()) else []) +
                      (['reassign:size-on-prefix-sum+1'] if (b - 1) in set(np.cumsum(lens).tolist()) else []) +
                      [
                       'reassign:batches=%d' % len(util.compute_batches(lens, b))] +
                      (['reassign:first-trajectory-fills-batch'] if first_full else []))
        try:
            with _Quiet():
                A, Dd = util.batch_reassign(targets, centers, lens, frac_mem, n_procs=1)
        except Exception as e:  # noqa
            if b >= max(lens):
                ctx.violation('batch_reassign raised %s on valid input (lengths %s, batch size %d)'
                              % (type(e).__name__, lens, b), case,
                              key=KEY_BATCH if (first_full and isinstance(e, IndexError)) else None)
            return None
        # oracle: brute-force minimum over the metric's own values (md.rmsd of every frame of the
        # whole data set to every center, one call per center, no batching)
        allxyz = np.concatenate(coords)
        n = len(allxyz)
        whole = md.Trajectory(allxyz.copy(), top)
        whole.center_coordinates()
        T = np.stack([md.rmsd(whole, c, precentered=True) for c in centers], axis=1).astype(np.float64)
        what = None
        if [len(x) for x in A] != lens or [len(x) for x in Dd] != lens:
            what = 'per-trajectory pieces have lengths %s, trajectories have %s' % ([len(x) for x in A], lens)
        else:
            a = np.concatenate([np.asarray(x) for x in A])
            d = np.concatenate([np.asarray(x) for x in Dd])
            for f in range(n):
                m = T[f].min()
                if not (0 <= a[f] < k) or abs(T[f, int(a[f])] - m) > 1e-5 or abs(d[f] - m) > 1e-5:
                    what = 'frame %d: label %d distance %r, minimal distance %r' % (f, a[f], d[f], m)
                    break
        if what:
            ctx.violation('batch_reassign: ' + what, case)
            return None
        if any(T[f, int(a[f])] != d[f] for f in range(n)) or \
                any(np.sort(T[f])[0] == np.sort(T[f])[min(1, k - 1)] and k > 1 for f in range(n)):
            ctx.skip('reassign: float rmsd differs between batch and whole-data call, or float tie')
            return None
        req = {'op': 'C10.batch_reassign', 'lens': lens, 'k': k, 'batch_size': b,
               'has_xyz': False, 'table': table_json(T)}
        impl = [[[int(x), frac(y)] for x, y in zip(aa, dd)] for aa, dd in zip(A, Dd)]

        def compare(r):
            if r.get('ok') != impl:
                ctx.disagreement('Model.Assign.batchReassign vs batch_reassign', dict(case, model=r, impl=impl))
        return req, compare
    finally:
        shutil.rmtree(tmp, ignore_errors=True)


def do_assign_md(ctx, case):
    """md.Trajectory frames and centers with md.rmsd (centers as md.Trajectory -> `.xyz` -> per-frame
    branch when they outnumber the frames; as a list of one-frame trajectories -> sweep)"""
    import mdtraj as md
    from enspara.cluster.util import assign_to_nearest_center
    rng = np.random.default_rng(case['coords_seed'])
    n, k, n_atoms = case['n'], case['k'], case['n_atoms']
    top = md.Topology()
    ch = top.add_chain()
    for _ in range(n_atoms):
        top.add_atom('CA', md.element.carbon, top.add_residue('ALA', ch))
    xyz = (rng.integers(-8, 9, size=(n, n_atoms, 3)) / 4.0).astype(np.float32)
    cxyz = (rng.integers(-8, 9, size=(k, n_atoms, 3)) / 4.0).astype(np.float32)
    trj = md.Trajectory(xyz.copy(), top)
    ctrj = md.Trajectory(cxyz.copy(), top)
    centers = ctrj if case['centers_as'] == 'trajectory' else [ctrj.slice(i, copy=True) for i in range(k)]
    perframe = case['centers_as'] == 'trajectory' and k > n
    ctx.case(case, nontrivial=k >= 2,
             tags=['assign_md', 'assign_md:centers=' + case['centers_as'],
                   'assign_md:branch=' + ('perframe' if perframe else 'sweep')] + fam(case))
    r = call_real(assign_to_nearest_center, trj, centers, md.rmsd)
    if r[0] == 'error':
        ctx.violation('assign_to_nearest_center(md.Trajectory, %s of centers, md.rmsd) raised %s'
                      % (case['centers_as'], r[2]), case)
        return None
    a, d = r[1]
    # oracle: one md.rmsd call per (frame, center) pair on fresh one-frame trajectories
    O = np.array([[float(md.rmsd(md.Trajectory(xyz[f:f + 1].copy(), top), md.Trajectory(cxyz[c:c + 1].copy(), top))[0])
                   for c in range(k)] for f in range(n)])
    for f in range(n):
        m = O[f].min()
        if not (0 <= int(a[f]) < k) or abs(O[f, int(a[f])] - m) > 1e-5 or abs(float(d[f]) - m) > 1e-5:
            ctx.violation('assign_to_nearest_center with md.rmsd: frame %d label %d distance %r, minimal distance %r'
                          % (f, a[f], d[f], m), case)
            return None
    # exact table for the model, in the orientation the branch uses
    if perframe:
        T = np.stack([md.rmsd(ctrj, trj[f]) for f in range(n)], axis=0).astype(np.float64)
    else:
        T = np.stack([md.rmsd(trj, ctrj[c]) for c in range(k)], axis=1).astype(np.float64)
    srt = np.sort(T, axis=1)
    if any(T[f, int(a[f])] != d[f] for f in range(n)) or (k > 1 and bool((srt[:, 1] - srt[:, 0] <= 1e-5).any())):
        # md.rmsd is not bitwise reproducible from call to call: a float near-tie cannot be replayed
        ctx.skip('assign_md: float near-tie or rmsd floats differ between two identical calls')
        return None
    req = {'op': 'C10.assign', 'n': n, 'k': k, 'has_xyz': case['centers_as'] == 'trajectory', 'table': table_json(T)}

    def compare(r):
        ok = 'ok' in r and r['ok']['labels'] == ints(a) and all(erat_eq(m, x) for m, x in zip(r['ok']['dists'], d))
        if not ok:
            ctx.disagreement('Model.Assign.assignNearest vs assign_to_nearest_center (md.rmsd)',
                             dict(case, model=r, impl={'labels': ints(a), 'dists': [frac(x) for x in d]}))
    return req, compare


def do_warm(ctx, case):
    """kcenters(X, metric, n_clusters=1, init_centers=C): the warm start is assign_to_nearest_center +
    find_cluster_centers on the given centers and no further iteration - the pipeline the clustering
    code itself runs"""
    from enspara.cluster.kcenters import kcenters
    base_metric, oracle = make_metric(case)
    vm = VariantMetric(case, base_metric)
    X = data_array(case['X'], case)
    C = data_array(case['C'], case)
    n, k = len(X), len(C)
    ctx.case(case, nontrivial=n >= 1 and k >= 2,
             tags=['warm', 'warm:metric=' + case['metric']] + ret_tags(case, 'warm') + fam(case))
    T, O = tables(base_metric, oracle, X, C, False)
    T, O = vm.through(T), vm.through(O)
    results = []
    for rep in range(2):
        r = call_real(kcenters, X, vm, n_clusters=1, init_centers=[c for c in C])
        if r[0] == 'error':
            ctx.violation('kcenters warm start raised %s' % r[2], case)
            return None
        res = r[1]
        a, d, ci = np.asarray(res.assignments), np.asarray(res.distances), np.asarray(res.center_indices)
        bad = nearest_ok(O, a, d, case_scale(case)) or centers_ok(a, d, ci)
        if bad is None and not vm.intact():
            bad = 'the distance table the metric returns views of was overwritten'
        if bad:
            ctx.violation('kcenters warm start (assign + find centers, call %d, metric returns=%s): %s'
                          % (rep + 1, case.get('ret', 'fresh'), bad), case)
            return None
        results.append((a, d, ci))
    if not all(np.array_equal(x, y) for x, y in zip(results[0], results[1])):
        ctx.violation('kcenters warm start: a second call on the same objects gives a different result', case)
        return None
    a, d, ci = results[0]
    req = {'op': 'C10.predict', 'n': n, 'k': k, 'has_xyz': False, 'table': table_json(T)}

    def compare(r):
        ok = 'ok' in r and r['ok']['labels'] == ints(a) and r['ok']['centers'] == ints(ci) and \
            all(erat_eq(mm, x) for mm, x in zip(r['ok']['dists'], d))
        if not ok:
            ctx.disagreement('Model.Assign.predict vs kcenters warm start',
                             dict(case, model=r, impl={'labels': ints(a), 'centers': ints(ci),
                                                       'dists': [frac(x) for x in d]}))
    return req, compare


DO = {'warm': do_warm, 'assign_md': do_assign_md, 'assign': do_assign, 'predict': do_predict, 'find': do_find, 'partition': do_partition,
      'plist': do_plist, 'pidx': do_pidx, 'batches': do_batches, 'reassign': do_reassign}


def process(ctx, cases):
    # thread count of the compiled kernels is C13's subject; one OpenMP thread here keeps thousands of
    # tiny kernel calls from spin-waiting against each other on a loaded machine
    from threadpoolctl import threadpool_limits
    import enspara.geometry.libdist  # noqa: F401  (load libgomp before limiting it)
    pending = []
    with threadpool_limits(limits=1):      # OpenMP kernels and BLAS alike
        for case in cases:
            try:
                r = DO[case['kind']](ctx, case)
            except Exception as e:  # noqa - nothing may escape: classify by where it was raised
                report_escaped(ctx, case, e)
                continue
            if r is not None:
                pending.append((case, r))
    resp = ctx.driver([rq for _, (rq, _) in pending])
    for (case, (_, compare)), r in zip(pending, resp):
        try:
            compare(r)
        except Exception as e:  # noqa
            report_escaped(ctx, case, e)


def report_escaped(ctx, case, e):
    """an exception that no per-call handler caught"""
    import traceback
    frames = traceback.extract_tb(e.__traceback__)
    in_real = any((os.sep + 'enspara' + os.sep) in fr.filename for fr in frames)
    where = '%s:%d' % (os.path.basename(frames[-1].filename), frames[-1].lineno) if frames else '?'
    text = '%s: %s at %s' % (type(e).__name__, str(e)[:200], where)
    if in_real and case.get('valid', True):
        ctx.violation('%s: the implementation raised %s on a valid case' % (case['kind'], text), case)
    elif in_real:
        ctx.disagreement('%s: the implementation raised %s (input outside the property)' % (case['kind'], text),
                         case)
    else:
        ctx.disagreement('%s: the output could not be judged (%s)' % (case['kind'], text), case)


def fixed_cases():
    """hand-placed edges, always run"""
    out = []
    # a tie between centers 1 and 2; fewer / equal / more centers than frames; every wrapper
    D = [[3, 1, 1, 0], [2, 2, 5, 1], [0, 0, 0, 2], [7, 6, 6, 3]]
    for X, C in (([[0], [1], [2], [3]], [[0], [1], [2]]), ([[0], [1]], [[0], [1], [2]]),
                 ([[0], [1], [2]], [[2], [1], [0]]), ([], [[0]]), ([[1]], []), ([[1]], [[3], [3], [3]])):
        for w in ('list', 'ndarray', 'xyz'):
            out.append({'kind': 'assign', 'metric': 'table', 'D': D, 'N': 4, 'symmetric': False,
                        'X': X, 'C': C, 'wrapper': w})
    for lens in ([1], [1, 1], [3], [2, 2], [1, 2], [2, 1], [1, 3, 1], [3, 3, 3], [1, 1, 4]):
        n = sum(lens)
        for lt in ('list', 'int64', 'int32'):
            out.append({'kind': 'partition', 'lens': lens, 'lens_how': 'fixed', 'a': list(range(n)),
                        'd': [v / 2 for v in range(n)], 'ci': list(range(n)), 'lens_type': lt,
                        'ci_type': lt, 'valid': True})
        for it in ('list', 'int64', 'int32'):
            out.append({'kind': 'pidx', 'lens': lens, 'lens_how': 'fixed',
                        'inds': list(range(n)) + list(range(n))[::-1], 'valid': True,
                        'inds_type': it, 'lens_type': 'list' if it == 'int32' else it})
        out.append({'kind': 'plist', 'lens': lens, 'lens_how': 'fixed', 'l': list(range(10, 10 + n)),
                    'as_array': True})
    out.append({'kind': 'find', 'a': [2, 0, 2, 0, 5], 'd': [1.0, 3.0, 1.0, 2.0, None]})
    out.append({'kind': 'batches', 'lens': [3, 4, 5, 1, 1, 9], 'batch_size': 9})
    out.append({'kind': 'batches', 'lens': [9, 1], 'batch_size': 9})
    return out


def run(ctx):
    rng = ctx.rng
    cases = fixed_cases()
    cases += [gen_assign(rng) for _ in range(ctx.n(2500, 40000))]
    cases += [gen_predict(rng) for _ in range(ctx.n(500, 8000))]
    cases += [gen_find(rng) for _ in range(ctx.n(1000, 15000))]
    cases += [gen_partition(rng) for _ in range(ctx.n(1500, 25000))]
    cases += [gen_plist(rng) for _ in range(ctx.n(500, 8000))]
    cases += [gen_pidx(rng) for _ in range(ctx.n(500, 8000))]
    cases += [gen_batches(rng) for _ in range(ctx.n(600, 10000))]
    # batch_reassign on generated .h5 trajectories: slow (process pools), few cases
    cases += [gen_reassign(rng) for _ in range(ctx.n(3, 150))]
    cases += [gen_reassign(rng, force_first_full=True) for _ in range(ctx.n(1, 10))]
    cases += blind_spot_cases(ctx)
    process(ctx, cases)


def replay(ctx, case):
    case = {k: v for k, v in case.items() if k not in ('model', 'impl')}
    process(ctx, [case])
