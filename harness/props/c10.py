"""C10 - nearest-center assignment and per-trajectory bookkeeping are exact.

Entry points driven on the staged copy of /repo:
  enspara.cluster.util.assign_to_nearest_center (both branches), find_cluster_centers,
  ClusterResult.partition, compute_batches, batch_reassign (small generated .h5 files),
  KCenters/KHybrid/KMedoids .fit(X).predict(Y), enspara.ra.ra.partition_list / partition_indices.
Every real output is (a) judged by the property's own words with brute-force numpy oracles
(-> ctx.violation) and (b) compared with the compiled Lean model Model/Assign.lean
(-> ctx.disagreement when only the model differs, e.g. another tie-break).
"""
import os
import shutil
import tempfile
import warnings
from fractions import Fraction

import numpy as np

RULE = ('seeded random cases per entry point: assign (n frames 0..8, k centers 0..10 so that k<n, k=n, '
        'k>n all occur; centers as list / ndarray / xyz-carrying ndarray view so both code branches run; '
        'table metric over small-integer tables with many ties, symmetric and asymmetric, and the compiled '
        'euclidean/manhattan kernels on small-integer points in 6 dtypes); predict via KCenters/KHybrid/'
        'KMedoids fit on X then predict on Y with fewer/equal/more frames than centers; find_cluster_centers '
        '(labels with gaps/negatives, ties, inf); ClusterResult.partition (equal, unequal, length-1, single, '
        'occasionally zero-length trajectories; center indices always include first and last frame of every '
        'trajectory; lengths/indices as list, int64 ndarray or int32 ndarray; every argument snapshotted before/'
        'after, the same ClusterResult partitioned twice; a few inconsistent inputs for the error branch); '
        'partition_list / partition_indices directly; compute_batches; batch_reassign on generated .h5 '
        'trajectories (2 cases quick, more in thorough). Non-trivial = at least one frame and the entry '
        'point has a real choice to make (k>=2, >=1 label, >=1 center index, >=1 trajectory); distinct by '
        'canonical input.')
ASSUMPTIONS = [
    'the table metric (a Python callable reading a small-integer matrix) and the euclidean/manhattan '
    'kernels return the same value for the same (frame, center) pair whenever they are called; the table '
    'given to the model is the kernel\'s own float64 output converted exactly to rationals',
    'numpy argmin/min/unique/where follow their documented semantics (first minimum, ascending unique); '
    'the model fuses where+argmin+index-back into one first-minimal-member scan',
    'mdtraj loads what it saved (batch_reassign cases); the oracle for batch_reassign is the brute-force '
    'minimum over md.rmsd values computed on the whole data set without batching (float32 kernel, 1e-5 '
    'tolerance); the model is compared exactly only when per-batch and whole-data rmsd floats coincide',
    'batch_size of batch_reassign is steered through frac_mem (real argument); the RAM size is read from psutil',
]
TRUSTED_EXTRA = ['numpy 2.4 / mdtraj 1.11 as installed in /venv for the oracles']

KEY_BATCH = 'batch-reassign-first-trajectory-fills-batch'
DTYPES = ['float64', 'float32', 'int64', 'int32', 'int16', 'int8']


# ----------------------------------------------------------------------------- helpers

def frac(x):
    """float -> exact [num, den] (None for +inf)."""
    x = float(x)
    if np.isinf(x) and x > 0:
        return None
    f = Fraction(x)
    return [f.numerator, f.denominator]


def erat_eq(m, x):
    """model ERat (None or [num, den]) equals float x exactly"""
    x = float(x)
    if m is None:
        return np.isinf(x) and x > 0
    if not np.isfinite(x):
        return False
    return Fraction(m[0], m[1]) == Fraction(x)


def close(x, y, tol=1e-9):
    x, y = float(x), float(y)
    if np.isinf(x) or np.isinf(y):
        return x == y
    return abs(x - y) <= tol * max(1.0, abs(x), abs(y))


def ints(a):
    return [int(v) for v in a]


def as_container(vals, how):
    """python list / int64 ndarray / int32 ndarray ('ndarray' = int64, older corpus files)"""
    if how == 'list':
        return list(vals)
    if how == 'int32':
        return np.array(vals, dtype=np.int32)
    return np.array(vals, dtype=np.int64)


def snapshot(x):
    if isinstance(x, np.ndarray):
        return ('ndarray', str(x.dtype), tuple(x.shape), x.tobytes())
    return ('list', [v for v in x])


def call_real(fn, *args, **kw):
    """run the real code; ('ok', value) or ('error', kind, text) - never raises"""
    try:
        with _Quiet():
            return ('ok', fn(*args, **kw))
    except Exception as e:  # noqa
        return ('error', exc_kind(e), '%s: %s' % (type(e).__name__, str(e)[:200]))


class _Quiet:
    def __enter__(self):
        self._w = warnings.catch_warnings()
        self._w.__enter__()
        warnings.simplefilter('ignore')

    def __exit__(self, *a):
        self._w.__exit__(*a)


def make_metric(case):
    """returns (metric callable, oracle(Xrows, yrow) -> float64 vector computed independently)"""
    kind = case['metric']
    if kind == 'table':
        D = np.array(case['D'], dtype=float)

        def metric(X, y):
            return D[np.asarray(X)[:, 0].astype(int), int(np.asarray(y)[0])]

        def oracle(X, y):
            return np.array([D[int(r[0]), int(y[0])] for r in np.asarray(X)], dtype=float)
        return metric, oracle
    from enspara.geometry.libdist import euclidean, manhattan
    if kind == 'euclidean':
        def oracle(X, y):
            X = np.asarray(X, dtype=np.float64)
            return np.sqrt(((X - np.asarray(y, dtype=np.float64)) ** 2).sum(axis=1)) if len(X) else np.zeros(0)
        return euclidean, oracle

    def oracle(X, y):
        X = np.asarray(X, dtype=np.float64)
        return np.abs(X - np.asarray(y, dtype=np.float64)).sum(axis=1) if len(X) else np.zeros(0)
    return manhattan, oracle


def metric_arg(case):
    """what is handed to an estimator's `metric=`"""
    if case['metric'] == 'table':
        return make_metric(case)[0]
    return case['metric']


def data_array(rows, case, width=None):
    if case['metric'] == 'table':
        return np.array(rows, dtype=float).reshape(len(rows), 1)
    w = width if width is not None else case['dim']
    return np.array(rows, dtype=case['dtype']).reshape(len(rows), w)


def wrap_centers(C, how):
    if how == 'list':
        return [c for c in C]
    if how == 'ndarray':
        return C

    class XYZ(np.ndarray):
        @property
        def xyz(self):
            return np.asarray(self)
    return C.view(XYZ)


def tables(metric, oracle, X, C, swapped):
    """exact table (from the real metric) and oracle table, T[f][c]; `swapped`: the per-frame
    branch calls metric(centers, frame)."""
    n, k = len(X), len(C)
    T = np.zeros((n, k))
    O = np.zeros((n, k))
    if swapped:
        for f in range(n):
            if k:
                T[f, :] = metric(C, X[f])
                O[f, :] = oracle(C, X[f])
    else:
        for c in range(k):
            if n:
                T[:, c] = metric(X, C[c])
                O[:, c] = oracle(X, C[c])
    return T, O


def table_json(T):
    return [[frac(v) for v in row] for row in T]


def nearest_ok(O, a, d):
    """the property's words: every frame has a center at minimal distance and reports exactly it"""
    n, k = O.shape
    for f in range(n):
        m = O[f].min()
        if not (0 <= int(a[f]) < k):
            return 'label %r of frame %d is not a center index' % (a[f], f)
        if not close(O[f, int(a[f])], m):
            return 'frame %d assigned to center %d at distance %r, minimum is %r' % (f, a[f], O[f, int(a[f])], m)
        if not close(d[f], m):
            return 'frame %d reports distance %r, minimal distance is %r' % (f, d[f], m)
    return None


def centers_ok(a, d, got):
    """per label present (ascending) a member frame of smallest distance"""
    labels = sorted(set(ints(a)))
    if len(got) != len(labels):
        return 'got %d center indices for %d labels present' % (len(got), len(labels))
    for lab, m in zip(labels, got):
        m = int(m)
        if not (0 <= m < len(a)) or int(a[m]) != lab:
            return 'center index %d is not a member of label %d' % (m, lab)
        best = min(float(d[f]) for f in range(len(a)) if int(a[f]) == lab)
        if not close(d[m], best):
            return 'center index %d of label %d has distance %r, smallest is %r' % (m, lab, d[m], best)
    return None


# ----------------------------------------------------------------------------- generators

def gen_metric(rng, case, nmax_ids=7):
    r = rng.random()
    if r < 0.5:
        N = int(rng.integers(1, nmax_ids + 1))
        D = rng.integers(0, 4, size=(N, N))
        sym = bool(rng.random() < 0.5)
        if sym:
            D = np.triu(D) + np.triu(D, 1).T
        case.update(metric='table', D=D.tolist(), N=N, symmetric=sym or bool((D == D.T).all()))
    else:
        case.update(metric='euclidean' if r < 0.75 else 'manhattan', dim=int(rng.integers(1, 4)),
                    dtype=DTYPES[int(rng.integers(0, len(DTYPES)))], symmetric=True)


def gen_rows(rng, case, m):
    if case['metric'] == 'table':
        return [[int(v)] for v in rng.integers(0, case['N'], size=m)]
    return rng.integers(-2, 3, size=(m, case['dim'])).tolist()


def gen_assign(rng):
    case = {'kind': 'assign'}
    gen_metric(rng, case)
    n = int(rng.choice([0, 1, 1, 2, 2, 3, 3, 4, 5, 6, 8]))
    mode = rng.random()
    if mode < 0.3:
        k = n
    elif mode < 0.65:
        k = n + int(rng.integers(1, 4))
    else:
        k = int(rng.integers(0, max(n, 1) + 1)) if rng.random() < 0.15 else int(rng.integers(1, max(n, 2)))
    case.update(X=gen_rows(rng, case, n), C=gen_rows(rng, case, k),
                wrapper=['list', 'ndarray', 'xyz', 'xyz'][int(rng.integers(0, 4))])
    return case


def gen_predict(rng):
    case = {'kind': 'predict'}
    gen_metric(rng, case)
    nfit = int(rng.integers(1, 9))
    k = int(rng.integers(1, nfit + 1))
    m = int(rng.choice([0, 1, 2, k, max(k - 1, 0), k + 1, k + 3, 6]))
    est = ['KCenters', 'KCenters', 'KCenters', 'KHybrid', 'KMedoids'][int(rng.integers(0, 5))]
    if est != 'KCenters' and case['metric'] == 'table':
        # k-medoids asserts that a center is at distance 0 from itself
        case['D'] = [[0 if i == j else v for j, v in enumerate(row)] for i, row in enumerate(case['D'])]
    case.update(X=gen_rows(rng, case, nfit), Y=gen_rows(rng, case, m), k=k, est=est,
                seed=int(rng.integers(0, 2 ** 31 - 1)))
    if est == 'KCenters' and rng.random() < 0.3:
        case['radius'] = float(rng.integers(0, 3))
    return case


def gen_find(rng):
    n = int(rng.choice([0, 1, 2, 3, 4, 5, 6, 8, 10]))
    nl = int(rng.integers(1, 5))
    labels = rng.choice(np.arange(-2, 7), size=nl, replace=False)
    a = [int(v) for v in rng.choice(labels, size=n)]
    dk = rng.random()
    if dk < 0.6:
        d = [float(v) for v in rng.integers(0, 3, size=n)]
    elif dk < 0.8:
        d = [float(v) / 4 for v in rng.integers(0, 9, size=n)]
    else:
        d = [float('inf') if rng.random() < 0.4 else float(v) for v in rng.integers(0, 3, size=n)]
    case = {'kind': 'find', 'a': a, 'd': [None if np.isinf(v) else v for v in d]}
    if rng.random() < 0.04:
        case['d'] = case['d'] + [0.0]     # DataInvalid branch
    return case


def gen_lens(rng):
    r = rng.random()
    T = int(rng.integers(1, 6))
    if r < 0.3:
        L = int(rng.integers(1, 5))
        return [L] * T, 'equal'
    if r < 0.4:
        return [int(rng.integers(1, 7))], 'single'
    if r < 0.5:
        return [1] * T, 'all-len1'
    if r < 0.93:
        lens = [int(rng.integers(1, 6)) for _ in range(T)]
        if rng.random() < 0.5:
            lens[int(rng.integers(0, T))] = 1
        return lens, 'mixed'
    lens = [int(rng.integers(0, 4)) for _ in range(T)]
    lens[int(rng.integers(0, T))] = 0
    return lens, 'zero-length'


def gen_partition(rng):
    lens, how = gen_lens(rng)
    n = sum(lens)
    starts = np.concatenate([[0], np.cumsum(lens)])[:-1]
    bounds = []
    for s, L in zip(starts, lens):
        if L > 0:
            bounds += [int(s), int(s + L - 1)]
    rest = [int(v) for v in rng.integers(0, max(n, 1), size=int(rng.integers(0, 4)))] if n else []
    ci = bounds + rest
    if rng.random() < 0.7:
        ci = [ci[i] for i in rng.permutation(len(ci))]
    ci = ci[:int(rng.integers(1, len(ci) + 1))] if ci and rng.random() < 0.4 else ci
    case = {'kind': 'partition', 'lens': lens, 'lens_how': how,
            'a': [int(v) for v in rng.integers(0, 4, size=n)],
            'd': [float(v) / 2 for v in rng.integers(0, 7, size=n)],
            'ci': ci, 'lens_type': ['list', 'int64', 'int32'][int(rng.integers(0, 3))],
            'ci_type': ['list', 'int64', 'int64', 'int32'][int(rng.integers(0, 4))], 'valid': True}
    r = rng.random()
    if r < 0.04 and n:
        case['ci'] = case['ci'] + [n, n + 2, -1]      # outside the property: what the code does
        case['valid'] = False
        case['invalid'] = 'index-out-of-range'
    elif r < 0.08:
        case['a'] = case['a'] + [0]
        case['d'] = case['d'] + [0.0]
        case['valid'] = False
        case['invalid'] = 'sum-mismatch'
    return case


def gen_plist(rng):
    lens, how = gen_lens(rng)
    n = sum(lens)
    case = {'kind': 'plist', 'lens': lens, 'lens_how': how, 'l': [int(v) for v in rng.integers(-3, 9, size=n)],
            'as_array': bool(rng.random() < 0.5)}
    if rng.random() < 0.06:
        case['l'] = case['l'] + [1] * int(rng.integers(1, 3))
    return case


def gen_pidx(rng):
    lens, how = gen_lens(rng)
    n = sum(lens)
    inds = [int(v) for v in rng.integers(0, max(n, 1), size=int(rng.integers(0, 8)))] if n else []
    case = {'kind': 'pidx', 'lens': lens, 'lens_how': how, 'inds': inds, 'valid': True,
            'inds_type': ['list', 'int64', 'int64', 'int32'][int(rng.integers(0, 4))],
            'lens_type': ['list', 'int64', 'int32'][int(rng.integers(0, 3))]}
    if rng.random() < 0.08:
        case['inds'] = inds + [n, -1, n + 3]
        case['valid'] = False
    return case


def gen_batches(rng):
    T = int(rng.integers(0, 8))
    return {'kind': 'batches', 'lens': [int(v) for v in rng.integers(0, 7, size=T)],
            'batch_size': int(rng.integers(0, 13))}


def gen_reassign(rng, force_first_full=False):
    T = int(rng.integers(1, 5))
    lens = [int(v) for v in rng.integers(1, 5, size=T)]
    mx = max(lens)
    if force_first_full:
        lens[0] = mx
        b = mx
    else:
        b = int(mx + rng.integers(0, 6))
        if lens[0] == b:
            b += 1
    n_atoms = int(rng.integers(3, 6))
    k = int(rng.integers(1, 5))
    return {'kind': 'reassign', 'lens': lens, 'batch_size': b, 'n_atoms': n_atoms, 'k': k,
            'centers_as': 'list',
            'coords_seed': int(rng.integers(0, 2 ** 31 - 1))}


# ----------------------------------------------------------------------------- per-kind processing
# each do_<kind>(ctx, case) runs the real code, judges it, and returns (request, compare) where
# compare(model_response) reports model/implementation differences.

def do_assign(ctx, case):
    from enspara.cluster.util import assign_to_nearest_center
    metric, oracle = make_metric(case)
    n, k = len(case['X']), len(case['C'])
    X = data_array(case['X'], case)
    C = data_array(case['C'], case)
    centers = wrap_centers(C, case['wrapper'])
    perframe = case['wrapper'] == 'xyz' and k > n
    r = call_real(assign_to_nearest_center, X, centers, metric)
    if r[0] == 'error':
        ctx.case(case, nontrivial=n >= 1 and k >= 2, tags=['assign', 'assign:raised'])
        ctx.violation('assign_to_nearest_center raised %s (n=%d frames, k=%d centers)' % (r[2], n, k), case)
        return None
    try:
        a, d = r[1]
    except Exception:  # noqa
        ctx.violation('assign_to_nearest_center did not return (assignments, distances)', case)
        return None
    T, O = tables(metric, oracle, X, C, perframe)
    ties = bool(n and k and any((O[f] == O[f].min()).sum() > 1 for f in range(n)))
    ctx.case(case, nontrivial=n >= 1 and k >= 2,
             tags=['assign', 'assign:branch=' + ('perframe' if perframe else 'sweep'),
                   'assign:' + ('k<n' if k < n else 'k=n' if k == n else 'k>n'),
                   'assign:metric=' + case['metric'], 'assign:centers=' + case['wrapper']] +
                  (['assign:ties'] if ties else []) + (['assign:k=0'] if k == 0 else []) +
                  (['assign:dtype=' + case['dtype']] if 'dtype' in case else []))
    if not (isinstance(a, np.ndarray) and isinstance(d, np.ndarray) and a.shape == (n,) and d.shape == (n,)
            and np.issubdtype(a.dtype, np.integer) and d.dtype == np.float64):
        ctx.violation('assign_to_nearest_center returned arrays of the wrong shape/dtype', case)
        return None
    if k >= 1:
        bad = nearest_ok(O, a, d)
        if bad:
            # an asymmetric table read in the other orientation = the other branch was taken
            if not case['symmetric']:
                T2, O2 = tables(metric, oracle, X, C, not perframe)
                if nearest_ok(O2, a, d) is None:
                    ctx.disagreement('assign_to_nearest_center took the other branch (k=%d, n=%d, centers=%s)'
                                     % (k, n, case['wrapper']), case)
                    return None
            ctx.violation('assign_to_nearest_center: ' + bad, case)
            return None
    req = {'op': 'C10.assign', 'n': n, 'k': k, 'has_xyz': case['wrapper'] == 'xyz', 'table': table_json(T)}

    def compare(r):
        ok = 'ok' in r and r['ok']['labels'] == ints(a) and len(r['ok']['dists']) == n and \
            all(erat_eq(m, x) for m, x in zip(r['ok']['dists'], d))
        if not ok:
            ctx.disagreement('Model.Assign.assignNearest vs assign_to_nearest_center',
                             dict(case, model=r, impl={'labels': ints(a), 'dists': [frac(x) for x in d]}))
    return req, compare


def fit_estimator(case):
    from enspara.cluster import KCenters, KHybrid, KMedoids
    X = data_array(case['X'], case)
    np.random.seed(case['seed'])
    m = metric_arg(case)
    if case['est'] == 'KCenters':
        if 'radius' in case:
            est = KCenters(metric=m, n_clusters=case['k'], cluster_radius=case['radius'])
        else:
            est = KCenters(metric=m, n_clusters=case['k'])
        est.fit(X)
    elif case['est'] == 'KHybrid':
        est = KHybrid(metric=m, n_clusters=case['k'], kmedoids_updates=2)
        est.fit(X)
    else:
        est = KMedoids(metric=m, n_clusters=case['k'], n_iters=2)
        est.fit(X, cluster_center_inds=list(range(case['k'])))
    return est


def do_predict(ctx, case):
    from enspara.cluster.util import ClusterResult
    metric, oracle = make_metric(case)
    try:
        with _Quiet():
            est = fit_estimator(case)
        centers = est.centers_
        k = len(centers)
    except Exception as e:  # fitting is C01/C02/C09's business
        ctx.skip('fit raised %s (%s)' % (type(e).__name__, case['est']))
        return None
    Y = data_array(case['Y'], case)
    m = len(Y)
    r = call_real(est.predict, Y)
    if r[0] == 'error':
        ctx.case(case, nontrivial=m >= 1 and k >= 2, tags=['predict', 'predict:raised'])
        ctx.violation('%s.predict raised %s (m=%d frames, k=%d centers)' % (case['est'], r[2], m, k), case)
        return None
    res = r[1]
    C = [np.asarray(c) for c in centers]
    T, O = tables(metric, oracle, Y, C, False)
    ctx.case(case, nontrivial=m >= 1 and k >= 2,
             tags=['predict', 'predict:' + case['est'], 'predict:metric=' + case['metric'],
                   'predict:' + ('m<k' if m < k else 'm=k' if m == k else 'm>k')])
    if not isinstance(res, ClusterResult):
        ctx.violation('predict did not return a ClusterResult', case)
        return None
    a, d, ci = np.asarray(res.assignments), np.asarray(res.distances), np.asarray(res.center_indices)
    if res.centers is not est.centers_:
        ctx.violation('predict does not reuse the fitted centers', case)
        return None
    if a.shape != (m,) or d.shape != (m,):
        ctx.violation('predict returned arrays of the wrong shape', case)
        return None
    if k >= 1:
        bad = nearest_ok(O, a, d)
        if bad:
            ctx.violation('%s.predict: %s' % (case['est'], bad), case)
            return None
    bad = centers_ok(a, d, ci)
    if bad:
        ctx.violation('%s.predict center_indices: %s' % (case['est'], bad), case)
        return None
    req = {'op': 'C10.predict', 'n': m, 'k': k, 'has_xyz': False, 'table': table_json(T)}

    def compare(r):
        ok = 'ok' in r and r['ok']['labels'] == ints(a) and r['ok']['centers'] == ints(ci) and \
            len(r['ok']['dists']) == m and all(erat_eq(mm, x) for mm, x in zip(r['ok']['dists'], d))
        if not ok:
            ctx.disagreement('Model.Assign.predict vs %s.predict' % case['est'],
                             dict(case, model=r, impl={'labels': ints(a), 'centers': ints(ci),
                                                       'dists': [frac(x) for x in d]}))
    return req, compare


def do_find(ctx, case):
    from enspara.cluster.util import find_cluster_centers
    from enspara.exception import DataInvalid
    a = np.array(case['a'], dtype=int)
    d = np.array([np.inf if v is None else v for v in case['d']], dtype=float)
    mismatch = len(a) != len(d)
    try:
        got = find_cluster_centers(a, d)
        out = {'ok': ints(got)}
    except DataInvalid:
        out = {'error': 'data-invalid'}
    except Exception as e:  # noqa
        out = {'error': type(e).__name__}
    labels = sorted(set(case['a']))
    tie = any(sum(1 for f in range(len(a)) if a[f] == lab and not mismatch and
                  d[f] == min(d[g] for g in range(len(a)) if a[g] == lab)) > 1 for lab in labels)
    ctx.case(case, nontrivial=len(a) >= 1 and not mismatch,
             tags=['find', 'find:labels=%d' % len(labels)] + (['find:ties'] if tie else []) +
                  (['find:length-mismatch'] if mismatch else []) + (['find:inf'] if None in case['d'] else []))
    if not mismatch:
        if 'error' in out:
            ctx.violation('find_cluster_centers raised %s on valid input' % out['error'], case)
            return None
        bad = centers_ok(a, d, out['ok'])
        if bad:
            ctx.violation('find_cluster_centers: ' + bad, case)
            return None
    req = {'op': 'C10.find_centers', 'assignments': case['a'],
           'distances': [None if v is None else frac(v) for v in case['d']]}

    def compare(r):
        if r != out:
            ctx.disagreement('Model.Assign.findClusterCenters vs find_cluster_centers',
                             dict(case, model=r, impl=out))
    return req, compare


def canon_parts(x, is_float):
    from enspara import ra
    conv = (lambda v: frac(v)) if is_float else (lambda v: int(v))
    if isinstance(x, ra.RaggedArray):
        return {'type': 'RaggedArray', 'data': [conv(v) for v in x._data],
                'lengths': ints(x.lengths), 'rows': [[conv(v) for v in row] for row in x._array]}
    if isinstance(x, np.ndarray):
        if x.ndim != 2:
            return {'type': 'ndarray', 'rows': None, 'ndim': int(x.ndim)}
        return {'type': 'ndarray', 'rows': [[conv(v) for v in row] for row in x]}
    return {'type': type(x).__name__}


def exc_kind(e):
    from enspara.exception import DataInvalid, ImproperlyConfigured
    if isinstance(e, DataInvalid):
        return 'data-invalid'
    if isinstance(e, ImproperlyConfigured):
        return 'improperly-configured'
    return {'IndexError': 'index-error', 'AttributeError': 'attribute-error',
            'ValueError': 'value-error'}.get(type(e).__name__, type(e).__name__)


def do_partition(ctx, case):
    from enspara.cluster.util import ClusterResult
    lens = case['lens']
    a = np.array(case['a'], dtype=int)
    d = np.array(case['d'], dtype=float)
    ci = as_container(case['ci'], case['ci_type'])
    L = as_container(lens, case['lens_type'])
    centers = object()
    res0 = ClusterResult(center_indices=ci, distances=d, assignments=a, centers=centers)
    snap = (a.tobytes(), d.tobytes())
    snap_ci, snap_L = snapshot(ci), snapshot(L)

    def canon_result(r):
        return {'ok': {'assignments': canon_parts(r.assignments, False),
                       'distances': canon_parts(r.distances, True),
                       'center_indices': [[int(t), int(f)] for t, f in r.center_indices]}}
    try:
        with _Quiet():
            res = res0.partition(L)
        out = canon_result(res)
    except Exception as e:  # noqa
        res, out = None, {'error': exc_kind(e), 'text': '%s: %s' % (type(e).__name__, str(e)[:200])}
    # splitting preserves every value: the flat result must survive its own partition, and
    # partitioning the SAME result again must give the same answer
    preserved = None
    if res is not None:
        if res0.center_indices is not ci or snapshot(ci) != snap_ci:
            preserved = ('the flat center indices of the ClusterResult were overwritten by partition '
                         '(%s %s -> %s)' % (case['ci_type'], case['ci'], ints(res0.center_indices)))
        elif snapshot(L) != snap_L:
            preserved = 'the lengths argument was overwritten by partition'
        else:
            try:
                with _Quiet():
                    out2 = canon_result(res0.partition(L))
            except Exception as e:  # noqa
                out2 = {'error': exc_kind(e)}
            if out2 != out:
                preserved = 'partitioning the same ClusterResult a second time gives a different result'
            elif snapshot(ci) != snap_ci:
                preserved = 'the flat center indices were overwritten by the second partition'
    equal = all(x == lens[0] for x in lens)
    starts = [sum(lens[:t]) for t in range(len(lens))]
    on_first = any(i in starts for i in case['ci'])
    on_last = any(i in [s + l - 1 for s, l in zip(starts, lens) if l] for i in case['ci'])
    ctx.case(case, nontrivial=len(a) >= 1 and case['valid'],
             tags=['partition', 'partition:' + ('square' if equal else 'ragged'),
                   'partition:lens=' + case['lens_how'], 'partition:lens_type=' + case['lens_type'],
                   'partition:ci_type=' + case['ci_type']] +
                  (['partition:has-len1'] if 1 in lens else []) +
                  (['partition:center-on-first-frame'] if on_first else []) +
                  (['partition:center-on-last-frame'] if on_last else []) +
                  ([] if case['valid'] else ['partition:' + case['invalid']]))
    if case['valid'] or case.get('invalid') == 'index-out-of-range':
        what = None
        if res is None:
            if case['valid']:
                what = 'raised %s on consistent input' % out['text']
        else:
            for name, flat, part in (('assignments', a, res.assignments), ('distances', d, res.distances)):
                c = out['ok'][name]
                want_type = 'ndarray' if equal else 'RaggedArray'
                if c['type'] != want_type:
                    what = '%s is a %s, lengths %s call for %s' % (name, c['type'], lens, want_type)
                    break
                if c.get('rows') is None:
                    what = '%s is not 2-dimensional' % name
                    break
                rows = [list(r) for r in part] if c['type'] == 'ndarray' else [list(r) for r in part._array]
                if [len(r) for r in rows] != list(lens):
                    what = '%s piece lengths %s != lengths %s' % (name, [len(r) for r in rows], lens)
                    break
                cat = [v for r in rows for v in r]
                if len(cat) != len(flat) or any(x != y for x, y in zip(cat, flat)):
                    what = 'concatenating the pieces of %s does not restore the flat array' % name
                    break
            if what is None and res.centers is not centers:
                what = 'centers not passed through'
            if what is None and case['valid']:
                pairs = out['ok']['center_indices']
                if len(pairs) != len(case['ci']):
                    what = '%d center indices in, %d (trajectory, frame) pairs out' % (len(case['ci']), len(pairs))
                else:
                    for i, (t, f) in zip(case['ci'], pairs):
                        if not (0 <= t < len(lens) and 0 <= f < lens[t] and starts[t] + f == i):
                            what = 'flat center index %d became (%d, %d) for lengths %s' % (i, t, f, lens)
                            break
                        if res.assignments[t][f] != a[i] or res.distances[t][f] != d[i]:
                            what = 'pair (%d, %d) does not address flat frame %d' % (t, f, i)
                            break
        if what is None and (a.tobytes(), d.tobytes()) != snap:
            what = 'flat arrays were modified'
        if what is None and case['valid']:
            what = preserved
        if what:
            ctx.violation('ClusterResult.partition: ' + what, case)
            return None
    out.pop('text', None)
    req = {'op': 'C10.partition', 'assignments': case['a'], 'distances': [frac(v) for v in case['d']],
           'center_indices': case['ci'], 'lens': lens}

    def compare(r):
        if r != out:
            ctx.disagreement('Model.Assign.partition vs ClusterResult.partition',
                             dict(case, model=r, impl=out))
    return req, compare


def do_plist(ctx, case):
    from enspara.ra.ra import partition_list
    lens, l = case['lens'], case['l']
    arg = np.array(l, dtype=int) if case['as_array'] else list(l)
    larg = list(lens)
    snap = (snapshot(arg), snapshot(larg))
    try:
        got = partition_list(arg, larg)
        out = {'ok': [ints(p) for p in got]}
    except Exception as e:  # noqa
        out = {'error': exc_kind(e)}
    valid = sum(lens) == len(l)
    ctx.case(case, nontrivial=len(l) >= 1 and valid,
             tags=['plist', 'plist:lens=' + case['lens_how']] + ([] if valid else ['plist:sum-mismatch']))
    if valid:
        if 'error' in out:
            ctx.violation('partition_list raised %s on consistent input' % out['error'], case)
            return None
        if [len(p) for p in out['ok']] != lens or [v for p in out['ok'] for v in p] != l:
            ctx.violation('partition_list: pieces do not have the given lengths / do not concatenate '
                          'back to the list', case)
            return None
        if (snapshot(arg), snapshot(larg)) != snap:
            ctx.violation('partition_list overwrote the list it partitions (values not preserved)', case)
            return None
    req = {'op': 'C10.partition_list', 'l': l, 'lens': lens}

    def compare(r):
        if r != out:
            ctx.disagreement('Model.Assign.partitionList vs partition_list', dict(case, model=r, impl=out))
    return req, compare


def do_pidx(ctx, case):
    from enspara.ra.ra import partition_indices
    lens, inds = case['lens'], case['inds']
    it = case.get('inds_type', 'int64' if case.get('as_array') else 'list')
    lt = case.get('lens_type', 'int64' if case.get('as_array') else 'list')
    arg, larg = as_container(inds, it), as_container(lens, lt)
    snap = (snapshot(arg), snapshot(larg))
    starts = [sum(lens[:t]) for t in range(len(lens))]
    ctx.case(case, nontrivial=len(inds) >= 1 and case['valid'],
             tags=['pidx', 'pidx:lens=' + case['lens_how'], 'pidx:inds_type=' + it, 'pidx:lens_type=' + lt] +
                  ([] if case['valid'] else ['pidx:out-of-range']))

    def canon(got):
        return {'ok': [[int(t), int(f)] for t, f in got]}
    r = call_real(partition_indices, arg, larg)
    if r[0] == 'error':
        if case['valid']:
            ctx.violation('partition_indices raised %s on in-range indices' % r[2], case)
            return None
        out = {'error': r[1]}
    else:
        try:
            out = canon(r[1])
        except Exception:  # noqa
            ctx.violation('partition_indices did not return (trajectory, frame) pairs', case)
            return None
    if case['valid']:
        what = None
        if len(out['ok']) != len(inds):
            what = '%d indices in, %d pairs out' % (len(inds), len(out['ok']))
        else:
            for i, (t, f) in zip(inds, out['ok']):
                if not (0 <= t < len(lens) and 0 <= f < lens[t] and starts[t] + f == i):
                    what = 'flat index %d became (%d, %d) for lengths %s' % (i, t, f, lens)
                    break
        if what is None and (snapshot(arg), snapshot(larg)) != snap:
            what = ('the caller\'s %s of flat indices was overwritten (%s -> %s): the values are not '
                    'preserved and the same indices no longer address the same frames'
                    % (it, inds, ints(arg)))
        if what is None:
            r2 = call_real(partition_indices, arg, larg)
            if r2[0] == 'error' or canon(r2[1]) != out:
                what = 'a second call with the same arguments gives a different result'
        if what:
            ctx.violation('partition_indices: ' + what, case)
            return None
    req = {'op': 'C10.partition_indices', 'inds': inds, 'lens': lens}

    def compare(r):
        if r != out:
            ctx.disagreement('Model.Assign.partitionIndices vs partition_indices', dict(case, model=r, impl=out))
    return req, compare


def do_batches(ctx, case):
    from enspara.cluster.util import compute_batches
    lens, b = case['lens'], case['batch_size']
    r = call_real(compute_batches, list(lens), b)
    if r[0] == 'error':
        ctx.case(case, nontrivial=len(lens) >= 1, tags=['batches', 'batches:raised'])
        ctx.violation('compute_batches raised %s' % r[2], case)
        return None
    out = {'ok': [ints(x) for x in r[1]]}
    ctx.case(case, nontrivial=len(lens) >= 1,
             tags=['batches', 'batches:n=%d' % len(out['ok'])] +
                  (['batches:first-empty'] if lens and not out['ok'][0] else []))
    flat = [t for x in out['ok'] for t in x]
    if flat != list(range(len(lens))):
        # batch reassignment would skip / repeat / reorder trajectories
        ctx.violation('compute_batches: batches do not concatenate to 0..m-1 in order', case)
        return None
    req = {'op': 'C10.compute_batches', 'lens': lens, 'batch_size': b}

    def compare(r):
        if r != out:
            ctx.disagreement('Model.Assign.computeBatches vs compute_batches', dict(case, model=r, impl=out))
    return req, compare


def do_reassign(ctx, case):
    import mdtraj as md
    import psutil
    from functools import partial
    from enspara.cluster import util
    rng = np.random.default_rng(case['coords_seed'])
    lens, b, n_atoms, k = case['lens'], case['batch_size'], case['n_atoms'], case['k']
    top = md.Topology()
    ch = top.add_chain()
    for _ in range(n_atoms):
        top.add_atom('CA', md.element.carbon, top.add_residue('ALA', ch))
    tmp = tempfile.mkdtemp(prefix='c10_reassign_')
    try:
        coords, files = [], []
        for i, L in enumerate(lens):
            xyz = (rng.integers(-8, 9, size=(L, n_atoms, 3)) / 4.0).astype(np.float32)
            coords.append(xyz)
            fn = os.path.join(tmp, 't%d.h5' % i)
            md.Trajectory(xyz, top).save_hdf5(fn)
            files.append(fn)
        cxyz = (rng.integers(-8, 9, size=(k, n_atoms, 3)) / 4.0).astype(np.float32)
        # exactly what enspara.cluster.util.reassign does with a trajectory of centers: slice first, then
        # pre-center every single-frame trajectory (slicing an already centered md.Trajectory would hand
        # every slice the rmsd traces of frame 0 - an mdtraj quirk, not enspara's business)
        ctrj = md.Trajectory(cxyz.copy(), top)
        centers = [ctrj.slice(i, copy=False) for i in range(k)]
        for c in centers:
            c.center_coordinates()
        targets = [(f, top, np.arange(n_atoms)) for f in files]
        bytes_per_frame = n_atoms * 3 * 4
        frac_mem = (b + 0.5) * bytes_per_frame / psutil.virtual_memory().total
        real_b = util.determine_batch_size(n_atoms, 4, frac_mem)[0]
        if real_b != b:
            ctx.skip('could not steer batch_size through frac_mem')
            return None
        first_full = lens[0] >= b
        ctx.case(case, nontrivial=True,
                 tags=['reassign', 'reassign:centers=' + case['centers_as'],
                       'reassign:batches=%d' % len(util.compute_batches(lens, b))] +
                      (['reassign:first-trajectory-fills-batch'] if first_full else []))
        try:
            with _Quiet():
                A, Dd = util.batch_reassign(targets, centers, lens, frac_mem, n_procs=1)
        except Exception as e:  # noqa
            if b >= max(lens):
                ctx.violation('batch_reassign raised %s on valid input (lengths %s, batch size %d)'
                              % (type(e).__name__, lens, b), case,
                              key=KEY_BATCH if (first_full and isinstance(e, IndexError)) else None)
            return None
        # oracle: brute-force minimum over the metric's own values (md.rmsd of every frame of the
        # whole data set to every center, one call per center, no batching)
        allxyz = np.concatenate(coords)
        n = len(allxyz)
        whole = md.Trajectory(allxyz.copy(), top)
        whole.center_coordinates()
        T = np.stack([md.rmsd(whole, c, precentered=True) for c in centers], axis=1).astype(np.float64)
        what = None
        if [len(x) for x in A] != lens or [len(x) for x in Dd] != lens:
            what = 'per-trajectory pieces have lengths %s, trajectories have %s' % ([len(x) for x in A], lens)
        else:
            a = np.concatenate([np.asarray(x) for x in A])
            d = np.concatenate([np.asarray(x) for x in Dd])
            for f in range(n):
                m = T[f].min()
                if not (0 <= a[f] < k) or abs(T[f, int(a[f])] - m) > 1e-5 or abs(d[f] - m) > 1e-5:
                    what = 'frame %d: label %d distance %r, minimal distance %r' % (f, a[f], d[f], m)
                    break
        if what:
            ctx.violation('batch_reassign: ' + what, case)
            return None
        if any(T[f, int(a[f])] != d[f] for f in range(n)) or \
                any(np.sort(T[f])[0] == np.sort(T[f])[min(1, k - 1)] and k > 1 for f in range(n)):
            ctx.skip('reassign: float rmsd differs between batch and whole-data call, or float tie')
            return None
        req = {'op': 'C10.batch_reassign', 'lens': lens, 'k': k, 'batch_size': b,
               'has_xyz': False, 'table': table_json(T)}
        impl = [[[int(x), frac(y)] for x, y in zip(aa, dd)] for aa, dd in zip(A, Dd)]

        def compare(r):
            if r.get('ok') != impl:
                ctx.disagreement('Model.Assign.batchReassign vs batch_reassign', dict(case, model=r, impl=impl))
        return req, compare
    finally:
        shutil.rmtree(tmp, ignore_errors=True)


DO = {'assign': do_assign, 'predict': do_predict, 'find': do_find, 'partition': do_partition,
      'plist': do_plist, 'pidx': do_pidx, 'batches': do_batches, 'reassign': do_reassign}


def process(ctx, cases):
    # thread count of the compiled kernels is C13's subject; one OpenMP thread here keeps thousands of
    # tiny kernel calls from spin-waiting against each other on a loaded machine
    from threadpoolctl import threadpool_limits
    import enspara.geometry.libdist  # noqa: F401  (load libgomp before limiting it)
    pending = []
    with threadpool_limits(limits=1, user_api='openmp'):
        for case in cases:
            try:
                r = DO[case['kind']](ctx, case)
            except Exception as e:  # noqa - nothing may escape: classify by where it was raised
                report_escaped(ctx, case, e)
                continue
            if r is not None:
                pending.append((case, r))
    resp = ctx.driver([rq for _, (rq, _) in pending])
    for (case, (_, compare)), r in zip(pending, resp):
        try:
            compare(r)
        except Exception as e:  # noqa
            report_escaped(ctx, case, e)


def report_escaped(ctx, case, e):
    """an exception that no per-call handler caught"""
    import traceback
    frames = traceback.extract_tb(e.__traceback__)
    in_real = any((os.sep + 'enspara' + os.sep) in fr.filename for fr in frames)
    where = '%s:%d' % (os.path.basename(frames[-1].filename), frames[-1].lineno) if frames else '?'
    text = '%s: %s at %s' % (type(e).__name__, str(e)[:200], where)
    if in_real and case.get('valid', True):
        ctx.violation('%s: the implementation raised %s on a valid case' % (case['kind'], text), case)
    elif in_real:
        ctx.disagreement('%s: the implementation raised %s (input outside the property)' % (case['kind'], text),
                         case)
    else:
        ctx.disagreement('%s: the output could not be judged (%s)' % (case['kind'], text), case)


def fixed_cases():
    """hand-placed edges, always run"""
    out = []
    # a tie between centers 1 and 2; fewer / equal / more centers than frames; every wrapper
    D = [[3, 1, 1, 0], [2, 2, 5, 1], [0, 0, 0, 2], [7, 6, 6, 3]]
    for X, C in (([[0], [1], [2], [3]], [[0], [1], [2]]), ([[0], [1]], [[0], [1], [2]]),
                 ([[0], [1], [2]], [[2], [1], [0]]), ([], [[0]]), ([[1]], []), ([[1]], [[3], [3], [3]])):
        for w in ('list', 'ndarray', 'xyz'):
            out.append({'kind': 'assign', 'metric': 'table', 'D': D, 'N': 4, 'symmetric': False,
                        'X': X, 'C': C, 'wrapper': w})
    for lens in ([1], [1, 1], [3], [2, 2], [1, 2], [2, 1], [1, 3, 1], [3, 3, 3], [1, 1, 4]):
        n = sum(lens)
        for lt in ('list', 'int64', 'int32'):
            out.append({'kind': 'partition', 'lens': lens, 'lens_how': 'fixed', 'a': list(range(n)),
                        'd': [v / 2 for v in range(n)], 'ci': list(range(n)), 'lens_type': lt,
                        'ci_type': lt, 'valid': True})
        for it in ('list', 'int64', 'int32'):
            out.append({'kind': 'pidx', 'lens': lens, 'lens_how': 'fixed',
                        'inds': list(range(n)) + list(range(n))[::-1], 'valid': True,
                        'inds_type': it, 'lens_type': 'list' if it == 'int32' else it})
        out.append({'kind': 'plist', 'lens': lens, 'lens_how': 'fixed', 'l': list(range(10, 10 + n)),
                    'as_array': True})
    out.append({'kind': 'find', 'a': [2, 0, 2, 0, 5], 'd': [1.0, 3.0, 1.0, 2.0, None]})
    out.append({'kind': 'batches', 'lens': [3, 4, 5, 1, 1, 9], 'batch_size': 9})
    out.append({'kind': 'batches', 'lens': [9, 1], 'batch_size': 9})
    return out


def run(ctx):
    rng = ctx.rng
    cases = fixed_cases()
    cases += [gen_assign(rng) for _ in range(ctx.n(4000, 40000))]
    cases += [gen_predict(rng) for _ in range(ctx.n(800, 8000))]
    cases += [gen_find(rng) for _ in range(ctx.n(1500, 15000))]
    cases += [gen_partition(rng) for _ in range(ctx.n(2500, 25000))]
    cases += [gen_plist(rng) for _ in range(ctx.n(800, 8000))]
    cases += [gen_pidx(rng) for _ in range(ctx.n(800, 8000))]
    cases += [gen_batches(rng) for _ in range(ctx.n(1000, 10000))]
    # batch_reassign on generated .h5 trajectories: slow (process pools), few cases
    cases += [gen_reassign(rng) for _ in range(ctx.n(6, 150))]
    cases += [gen_reassign(rng, force_first_full=True) for _ in range(ctx.n(2, 10))]
    process(ctx, cases)


def replay(ctx, case):
    case = {k: v for k, v in case.items() if k not in ('model', 'impl')}
    process(ctx, [case])
