"""C15 - stored and bulk-loaded data come back bit-identical.

Real code driven: enspara.ra.save / enspara.ra.load (HDF5 through PyTables),
enspara.util.load.load_as_concatenated / sound_trajectory (process pools, shared mp.Array,
mdtraj readers), and the two enspara.mpi.io loaders that reuse them (world size 1).
Every real output is checked against the property's own words with a numpy oracle
(bit-for-bit: rows are compared as bytes) and against the Lean model `Model/Store.lean`
through `driver_c15`.
"""
import math
import os
os.environ.setdefault('NUMEXPR_MAX_THREADS', '1')   # fewer idle threads in the process the pools fork from
import shutil
import tempfile
import time

import numpy as np

RULE = ('ra.save/ra.load: row counts 1,2,9,10,11,99,100,101,250 (thorough: 999,1000,1001) plus random small '
        'counts; row lengths 1..7; 1-D / (3,) / (2,3) elements; int8..int64, uint8..uint64, float16/32/64 with '
        'random bit patterns (extremes, quiet-NaN payloads, inf, -0.0, subnormals); compression 0/1/9; tags; strides 1..5; key '
        'subsets (sorted, shuffled, repeated, single, rank-striped); rectangular ndarray input; arbitrary-named '
        'HDF5 files incl. mismatching dtype/shape/missing key/no key; one known-finding probe (empty row). '
        'load_as_concatenated: harness-written .h5 and .xtc+topology trajectories, 1..8 (thorough ..16, 40, 64) '
        'files per call (also the same file listed 2-3 times with different per-file kwargs), processes 1..8/16/None, common kwargs or per-file args (stride, atom_indices, frame), lengths '
        'hint none/correct/wrong, per-file delays so that late files finish first (observed completion order is '
        'recorded and fed to the model). A case is non-trivial when it has >= 2 rows / >= 2 files; distinct by '
        'canonical input.')
ASSUMPTIONS = [
    'PyTables list_nodes returns names sorted as Python strings (compared with the real listing in every case)',
    'mdtraj: len(md.load(f, stride=s)) == ceil(len(md.open(f))/s), frame= yields one frame (checked in every pool case)',
    'HDF5/zlib store and return bytes unchanged for equal dtypes (this is what the round trip observes)',
    'multiprocessing start method is fork (delay injection and the shared array rely on inheritance, as the code does)',
    'frame counts < 2**53 / stride so that math.ceil(n/stride) is exact',
]
TRUSTED_EXTRA = [
    'C15: values, frames and dtypes are opaque in the Lean model; HDF5, zlib, mdtraj readers, the process pool and '
    'mp.Array are runtime components observed only through the correspondence run',
]

ROWCOUNTS_QUICK = [1, 2, 9, 10, 11, 99, 100, 101, 250]
ROWCOUNTS_THOROUGH = [999, 1000, 1001]
ROWCOUNTS_BIG = [9999, 10000, 10001]
DTYPES = ['int8', 'int16', 'int32', 'int64', 'uint8', 'uint16', 'uint32', 'uint64',
          'float16', 'float32', 'float64']
INNERS = [[], [3], [2, 3]]
COMPS = [0, 1, 9]
TAGS = ['arr', 'arr', 'x', 'Traj_7']
N_ATOMS = 6
MODEL_MAX_CELLS = 6000

ERRMAP = {
    'ValueError': 'value-error',
    'NoSuchNodeError': 'no-such-node',
    'DataInvalid': 'data-invalid',
    'IndexError': 'index-error',
    'ImproperlyConfigured': 'improperly-configured',
}


# --------------------------------------------------------------------------- helpers

def _mk_tmp():
    # memory-backed scratch space when available: the check writes thousands of tiny HDF5 nodes
    shm = '/dev/shm'
    d = tempfile.mkdtemp(prefix='c15_', dir=shm if os.path.isdir(shm) and os.access(shm, os.W_OK) else None)
    real = os.path.realpath(d)
    assert not real.startswith('/verif') and not real.startswith('/repo'), real
    return d


def _entries(a):
    """entries along the first axis as non-negative ints (their bytes, little endian)"""
    a = np.ascontiguousarray(a)
    n = a.shape[0]
    if n == 0:
        return []
    b = a.reshape(n, -1).view(np.uint8).reshape(n, -1)
    return [int.from_bytes(b[i].tobytes(), 'little') for i in range(n)]


def _rows_of(obj):
    """a loaded value as a list of row arrays (a plain ndarray is one row)"""
    if hasattr(obj, '_data') and hasattr(obj, 'lengths'):
        data = np.asarray(obj._data)
        lengths = [int(x) for x in obj.lengths]
        out, start = [], 0
        for n in lengths:
            out.append(data[start:start + n])
            start += n
        return out, lengths, False, data.dtype, (start == len(data))
    arr = np.asarray(obj)
    return [arr], [len(arr)], True, arr.dtype, True


def _same_bytes(a, b):
    a = np.ascontiguousarray(a)
    b = np.ascontiguousarray(b)
    return a.shape == b.shape and a.dtype == b.dtype and a.tobytes() == b.tobytes()


def _values(vseed, dtype, shape, values='random'):
    """deterministic values with awkward bit patterns"""
    rng = np.random.default_rng(vseed)
    dt = np.dtype(dtype)
    n = int(np.prod(shape)) if len(shape) else 1
    if values == 'zeros':
        return np.zeros(shape, dtype=dt)
    if values == 'const':
        return np.full(shape, 1, dtype=dt) if dt.kind == 'b' else np.full(shape, 7, dtype=dt)
    if dt.kind == 'b':
        return rng.integers(0, 2, size=n).astype(bool).reshape(shape)
    if dt.kind == 'c':
        half = np.dtype('float%d' % (dt.itemsize * 4))
        v = (rng.normal(size=n).astype(half) + 1j * rng.normal(size=n).astype(half)).astype(dt)
        return v.reshape(shape)
    if dt.kind in 'iu':
        info = np.iinfo(dt)
        v = rng.integers(info.min, info.max, size=n, endpoint=True, dtype=dt)
        ext = np.array([info.min, info.max, 0, 1], dtype=dt)
        if n:
            k = rng.integers(0, n, size=min(n, 4))
            v[k] = ext[:len(k)]
    else:
        bits = {2: np.uint16, 4: np.uint32, 8: np.uint64}[dt.itemsize]
        raw = rng.integers(0, np.iinfo(bits).max, size=n, endpoint=True, dtype=bits)
        v = raw.view(dt).copy()
        # half of them ordinary numbers
        m = rng.random(n) < 0.5
        v[m] = rng.normal(size=int(m.sum())).astype(dt)
        special = np.array([np.nan, np.inf, -np.inf, -0.0], dtype=dt)
        if n:
            k = rng.integers(0, n, size=min(n, 4))
            v[k] = special[:len(k)]
        # signalling NaNs are excluded: the FPU may set their quiet bit when a value merely passes through a
        # register, which is not a change of value; quiet NaNs keep their payload and are compared bit-wise
        quiet = {2: 0x0200, 4: 0x00400000, 8: 0x0008000000000000}[dt.itemsize]
        with np.errstate(invalid='ignore'):
            nan = np.isnan(v)
        vb = v.view(bits)
        vb[nan] |= bits(quiet)
    return v.reshape(shape)


def _expected_key(tag, i, nrows):
    return tag + '_' + str(i).zfill(len(str(nrows)) + 1)


def _err_kind(e):
    return ERRMAP.get(type(e).__name__, type(e).__name__)


# --------------------------------------------------------------------------- sub-model ties

def submodel_scope(ctx):
    reqs, exp = [], []
    counts = ROWCOUNTS_QUICK + ROWCOUNTS_THOROUGH + [10000, 99999, 100000]
    for n in counts:
        for i in sorted(set([0, 1, 9, 10, 11, 99, 100, n // 2, n - 1]) & set(range(n))):
            for tag in ('arr', 'Traj_7'):
                reqs.append({'op': 'C15.keyname', 'tag': tag, 'i': i, 'nrows': n})
                exp.append(_expected_key(tag, i, n))
    nk = len(reqs)
    # listing = sorted() on str
    alphabet = list('abzAZ_019') + ['arr_', 'x']
    for _ in range(ctx.n(60, 400)):
        k = int(ctx.rng.integers(0, 9))
        names = set()
        while len(names) < k:
            names.add(''.join(ctx.rng.choice(alphabet, size=int(ctx.rng.integers(1, 6)))))
        names = [str(x) for x in ctx.rng.permutation(sorted(names))]
        reqs.append({'op': 'C15.listing', 'names': names})
        exp.append(sorted(names))
    for n in (1, 2, 9, 10, 11, 99, 100, 101, 250, 1001):
        names = [_expected_key('arr', i, n) for i in range(n)]
        reqs.append({'op': 'C15.listing', 'names': [str(x) for x in ctx.rng.permutation(names)]})
        exp.append(names)                       # row order, and also sorted(names)
        if sorted(names) != names:
            ctx.violation('zero-padded key names do not sort in row order (python sorted)', {'kind': 'names', 'nrows': n})
    nl = len(reqs)
    for n in range(0, ctx.n(30, 60)):
        for s in range(1, 8):
            reqs.append({'op': 'C15.stride', 'n': n, 's': s})
            exp.append({'sel': list(range(n))[::s], 'len': len(range(0, n, s))})
            reqs.append({'op': 'C15.sound', 'n': n, 's': s})
            exp.append(math.ceil(n / s))
    resp = ctx.driver(reqs)
    bad = 0
    for rq, e, r in zip(reqs, exp, resp):
        if r.get('ok') != e:
            bad += 1
            if bad <= 3:
                ctx.disagreement('sub-model %s differs from Python' % rq['op'], dict(rq, kind='submodel', model=r, python=e))
    ctx.evaluations += len(reqs)
    ctx.tag('submodel-keyname', nk)
    ctx.tag('submodel-listing', nl - nk)
    ctx.tag('submodel-stride', len(reqs) - nl)
    ctx.note('submodel_scope', {'requests': len(reqs), 'mismatches': bad})


# --------------------------------------------------------------------------- ra.save / ra.load

def _build_input(case):
    from enspara import ra
    inner = tuple(case['inner'])
    lens = case['lens']
    total = sum(lens)
    flat = _values(case['vseed'], case['dtype'], (total,) + inner, case.get('values', 'random'))
    layout = case.get('layout', 'C')
    given = flat
    if layout == 'F' and flat.ndim >= 2:
        given = np.asfortranarray(flat)
    elif layout in ('strided', 'F'):
        big = np.zeros((2 * total,) + inner, dtype=flat.dtype)
        big[::2] = flat
        given = big[::2]                                   # every other entry of a larger buffer
    elif layout == 'reversed':
        given = flat[::-1].copy()[::-1]                    # negative stride along the first axis
    assert _same_bytes(np.ascontiguousarray(given), flat)
    if case['form'] == 'ndarray':
        return given, [flat]
    a = ra.RaggedArray(array=given, lengths=lens)
    rows, start = [], 0
    for n in lens:
        rows.append(flat[start:start + n])
        start += n
    return a, rows


def _subsets(case, rng):
    """key subsets as lists of row indices"""
    n = len(case['lens']) if case['form'] == 'ragged' else 1
    out = []
    if n == 1:
        return [[0]]
    out.append(sorted(int(x) for x in rng.choice(n, size=min(n, int(rng.integers(2, 6))), replace=False)))
    out.append([int(x) for x in rng.permutation(n)[:min(n, int(rng.integers(2, 7)))]])
    out.append([int(rng.integers(0, n))])                                       # one key -> plain array
    rep = [int(x) for x in rng.integers(0, n, size=3)]
    out.append(rep + rep[:1])                                                   # repetitions
    w = int(rng.integers(2, 5))
    r = int(rng.integers(0, w))
    stripe = list(range(n))[r::w]                                               # mpi/io.py: all_keys[rank::size]
    if stripe:
        out.append(stripe)
    out.append([n - 1, 0])
    return out


KEYS_AS = ['list', 'tuple', 'ndarray']
STRIDE_AS = ['int', 'np.int64', 'np.int32', 'np.uint8', 'int']


def _keys_obj(keys, how):
    if how == 'tuple':
        return tuple(keys)
    if how == 'ndarray':
        return np.array(keys)
    return list(keys)


def _stride_obj(s, how):
    if how == 'np.uint8' and s > 255:
        how = 'np.int64'
    return {'int': int, 'np.int64': np.int64, 'np.int32': np.int32, 'np.uint8': np.uint8}[how](s)


def _data_bytes(obj):
    return np.ascontiguousarray(obj._data if hasattr(obj, '_data') else obj).tobytes()


def check_ra(ctx, case, tmp):
    """one save + a family of loads; returns nothing, reports through ctx"""
    import tables
    from enspara import ra
    rng = np.random.default_rng(case['vseed'] + 1)
    inp, rows = _build_input(case)
    nrows = len(rows)
    tag = case['tag']
    fn = os.path.join(tmp, 'ra_%d.h5' % (case['vseed'] % 100000))
    strides = case.get('strides', [1, 2, 3, 4, 5])
    tags = ['rows=%s' % (nrows if nrows in ROWCOUNTS_QUICK + ROWCOUNTS_THOROUGH + ROWCOUNTS_BIG else 'other'),
            'dtype=' + case['dtype'], 'inner=%s' % (tuple(case['inner']),), 'comp=%d' % case['comp'],
            'form=' + case['form']] + (['family=' + case['family']] if 'family' in case else [])
    if max(case['lens']) > 65535:
        tags.append('row-longer-than-65535')
    for opt in ('layout', 'values'):
        if opt in case:
            tags.append('%s=%s' % (opt, case[opt]))
    positional = bool(case.get('positional'))
    reuse = bool(case.get('reuse'))
    ctx.case(case, nontrivial=nrows >= 2, tags=tags)
    base = {'op': 'C15.saveload', 'tag': tag, 'kind': case['form'], 'dtype': case['dtype'], 'inner': case['inner']}
    if case['form'] == 'ragged':
        base['rows'] = [_entries(r) for r in rows]
    else:
        base['data'] = _entries(rows[0])
    has_empty = any(len(r) == 0 for r in rows)
    before = _data_bytes(inp)
    try:
        kw = {'compression_level': case['comp']}
        if tag != 'arr':
            kw['tag'] = tag
        if positional:
            ctx.tag('positional-call')
            ra.save(fn, inp, case['comp'], tag)
        else:
            ra.save(fn, inp, **kw)
    except Exception as e:  # noqa
        m = ctx.driver([dict(base, keys=None, stride=1)])[0]
        if has_empty and isinstance(e, ValueError):
            ctx.violation('ra.save raises ValueError for an array with an empty row (cannot be stored, so not '
                          'returned identical)', dict(case, error=str(e)[:200]), key='save-empty-row')
            if m.get('error') != 'value-error' or m.get('stage') != 'save':
                ctx.disagreement('model accepts an array the real ra.save rejects', dict(case, model=m))
            return
        ctx.violation('ra.save raised %s on a valid array' % type(e).__name__, dict(case, error=str(e)[:200]))
        return
    if has_empty:
        ctx.skip('empty row stored by the real code (model still mirrors the PyTables refusal)')
    if _data_bytes(inp) != before:
        ctx.violation('ra.save modified the array it was given', case)
        return
    fn2 = None
    if reuse:
        # the same object saved a second time with another compression level
        ctx.tag('reuse-save-twice')
        fn2 = fn[:-3] + '_again.h5'
        try:
            ra.save(fn2, inp, compression_level=COMPS[(COMPS.index(case['comp']) + 1) % 3], tag=tag)
        except Exception as e:  # noqa
            ctx.violation('second ra.save of the same object raised %s' % type(e).__name__, dict(case, error=str(e)[:200]))
            return
        if _data_bytes(inp) != before:
            ctx.violation('second ra.save modified the array it was given', case)
            return
    # listing
    with tables.open_file(fn) as h:
        listed = [k.name for k in h.list_nodes('/')]
    exp_names = ([_expected_key(tag, i, nrows) for i in range(nrows)] if case['form'] == 'ragged'
                 else [tag + '_0'])
    if len(listed) != nrows:
        ctx.violation('file holds %d nodes for %d rows' % (len(listed), nrows), dict(case, listed=listed[:20]))
        return
    if listed != exp_names:
        # the names are not the ones the model (and the docstring) say; whether the listing is still in row
        # order is decided below by the full load, so this alone is a model/code difference
        ctx.disagreement('node names differ from tag_<zero-padded index>: %s...' % listed[:3], dict(case, listed=listed[:20]))
    # the loads
    plans = [('all', None, s) for s in strides]
    if case['form'] == 'ragged' and not has_empty:
        for idx in _subsets(case, rng):
            for s in (1, int(rng.integers(2, 6))):
                plans.append(('subset', idx, s))
    reqs = []
    for _, idx, s in plans:
        keys = None if idx is None else [exp_names[i] for i in idx]
        reqs.append(dict(base, keys=keys, stride=s))
    # key of row i as the file lists it (identical to exp_names unless reported above)
    real_keys = listed
    # the model's buffer is a chain of closures (quadratic in the number of cells): plans that fill more than
    # MODEL_MAX_CELLS cells are decided by the numpy oracle alone
    def cells(idx, s):   # noqa
        sel = range(nrows) if idx is None else idx
        return 0 if len(sel) == 1 else sum(-(-len(rows[i]) // s) for i in sel)
    use_model = [not has_empty and cells(idx, s) <= MODEL_MAX_CELLS for _, idx, s in plans]
    answers = iter(ctx.driver([rq for rq, u in zip(reqs, use_model) if u]))
    model = [next(answers) if u else None for u in use_model]
    if not all(use_model) and not has_empty:
        ctx.tag('model-skipped-large', use_model.count(False))
    full_rows = None
    for j, ((what, idx, s), m, rq) in enumerate(zip(plans, model, reqs)):
        sel = list(range(nrows)) if idx is None else idx
        keys_as, stride_as = KEYS_AS[j % 3], STRIDE_AS[j % 5]
        src = fn2 if (fn2 is not None and j % 2 == 1) else fn       # alternate between the two saved copies
        sobj = _stride_obj(s, stride_as)
        try:
            if idx is None:
                if positional:
                    got = ra.load(src, ..., sobj)
                elif j % 3 == 2:
                    got = ra.load(src, keys=..., stride=sobj)
                else:
                    got = ra.load(src, stride=sobj) if s != 1 else ra.load(src)
            else:
                kobj = _keys_obj([real_keys[i] for i in idx], keys_as)
                got = ra.load(src, kobj, sobj) if positional else ra.load(src, keys=kobj, stride=sobj)
                ctx.tag('keys-as-' + keys_as)
        except Exception as e:  # noqa
            ctx.violation('ra.load raised %s (%s, stride %d as %s, keys as %s)' % (type(e).__name__, what, s, stride_as, keys_as),
                          dict(case, load=what, idx=idx, stride=s, stride_as=stride_as, keys_as=keys_as,
                               error=str(e)[:200]))
            return
        grows, glens, plain, gdtype, consistent = _rows_of(got)
        ctx.tag('load-%s' % what)
        ctx.tag('stride=%d' % s if s <= 7 else 'stride>7')
        ctx.tag('stride-as-' + stride_as)
        ctx.tag('plain-result' if plain else 'ragged-result')
        ctx.evaluations += 1
        rp = dict(case, load=what, idx=idx, stride=s, stride_as=stride_as, keys_as=keys_as)
        if not consistent:
            ctx.violation('loaded lengths do not add up to the loaded data', rp)
            return
        if gdtype != np.dtype(case['dtype']):
            ctx.violation('element type changed: %s -> %s' % (case['dtype'], gdtype), rp)
            return
        exp_rows = [rows[i][::s] for i in sel]                       # the property: [:, ::stride] of the rows asked for
        if len(grows) != len(exp_rows):
            ctx.violation('number of rows %d != %d' % (len(grows), len(exp_rows)), rp)
            return
        if glens != [len(r) for r in exp_rows]:
            ctx.violation('row lengths %s != %s' % (glens[:8], [len(r) for r in exp_rows][:8]), rp)
            return
        for k, (g, e) in enumerate(zip(grows, exp_rows)):
            if not _same_bytes(g, e):
                ctx.violation('row %d differs bit-wise from the saved row (stride %d)' % (k, s), rp)
                return
        if reuse and j < 4:
            # the result must own its data: usable and writable after the file is closed, and scribbling over it
            # must not leak into the file or into a second load
            ctx.tag('reuse-load-twice')
            target = got._data if hasattr(got, '_data') else got
            try:
                target[...] = np.zeros((), dtype=target.dtype)
            except Exception as e:  # noqa
                ctx.skip('loaded array not writable (%s): overwrite test not applicable' % type(e).__name__)
            try:
                again = ra.load(src, **({} if idx is None else {'keys': [real_keys[i] for i in idx]}), stride=s)
            except Exception as e:  # noqa
                ctx.violation('second ra.load of the same file raised %s' % type(e).__name__, rp)
                return
            arows = _rows_of(again)[0]
            if len(arows) != len(exp_rows) or any(not _same_bytes(a, e) for a, e in zip(arows, exp_rows)):
                ctx.violation('second load of the same file differs after the first result was overwritten', rp)
                return
            grows = arows
        if idx is None and s == 1:
            full_rows = grows
        elif full_rows is not None:
            # stride / subset load equals slicing the full load
            for g, i in zip(grows, sel):
                if not _same_bytes(g, full_rows[i][::s]):
                    ctx.violation('strided/subset load differs from slicing the full load', rp)
                    return
        if plain != (len(sel) == 1):
            ctx.disagreement('plain-array rule: got plain=%s for %d keys' % (plain, len(sel)), rp)
        # model
        if m is None:
            continue
        ok = m.get('ok')
        if not ok:
            ctx.disagreement('Model.Store.load errs (%s) where ra.load succeeds' % m.get('error'), dict(rp, model=m))
            continue
        r = ok['result']
        if (ok['listed'] != listed or ok['created'] != exp_names or r['rows'] != [_entries(g) for g in grows]
                or r['lengths'] != glens or r['plain'] != plain or r['dtype'] != case['dtype']
                or r['inner'] != case['inner']):
            ctx.disagreement('Model.Store save/load differs from ra.save/ra.load', dict(rp, model_lengths=r['lengths'][:10]))
    for f in (fn, fn2):
        try:
            if f:
                os.unlink(f)
        except OSError:
            pass


def gen_blindspot_ra_cases(ctx):
    """families added by the generator blind-spot audit (sizes, containers, layouts, reuse, residues)"""
    rng = ctx.rng
    vs = lambda: int(rng.integers(1, 2**31))   # noqa
    cases = []
    def add(family, **kw):   # noqa
        c = {'kind': 'ra', 'form': 'ragged', 'inner': [], 'dtype': 'int32', 'comp': 1, 'tag': 'arr',
             'vseed': vs(), 'family': family}
        c.update(kw)
        cases.append(c)
    # 1. size boundaries: very long rows (> 255, > 65535 entries), 1000 / 10000 rows
    add('long-row', lens=[70000], dtype='int16', strides=[1, 3, 7])
    add('long-row', lens=[1, 66000, 2], dtype='uint8', strides=[1, 5], comp=9)
    add('long-row', lens=[300, 257, 256, 255], dtype='int8', strides=[1, 2, 255, 256, 257])
    if ctx.thorough:
        add('long-row', lens=[3, 40000], dtype='float32', inner=[3], strides=[1, 4], comp=0)
        add('long-row', lens=[200000, 1], dtype='float64', strides=[1, 9])
        add('long-row', form='ndarray', lens=[131073], dtype='uint16', inner=[2], strides=[1, 2, 65536])
    for n in ([] if not ctx.thorough else [9999, 10000, 10001]):       # 999/1000/1001 are in ROWCOUNTS_THOROUGH
        add('rows-10^k', lens=[int(x) for x in rng.integers(1, 4, size=n)], dtype='int64', strides=[1, 3],
            comp=0 if n > 1000 else 1)
    # 6. every residue of length modulo stride, strides up to 7 (and longer than some rows)
    add('all-residues', lens=list(range(1, 15)), strides=[3, 4, 5, 6, 7])
    add('all-residues', lens=list(range(14, 0, -1)), inner=[3], dtype='float64', strides=[3, 5, 7, 20])
    add('all-residues', form='ndarray', lens=[13], inner=[2, 3], dtype='float32', strides=[3, 4, 5, 6, 7, 13, 14])
    # 2. other storable element types, non-contiguous inputs
    for dt in ('bool', 'complex64', 'complex128'):
        add('dtype-extra', lens=[int(x) for x in rng.integers(1, 9, size=6)], dtype=dt, inner=INNERS[vs() % 3])
        add('dtype-extra', form='ndarray', lens=[7], dtype=dt, inner=[3])
    for layout in ('F', 'strided', 'reversed'):
        add('layout', form='ndarray', lens=[int(rng.integers(2, 20))], inner=[2, 3], dtype='float64', layout=layout)
        add('layout', form='ndarray', lens=[int(rng.integers(2, 20))], inner=[], dtype='int16', layout=layout)
        add('layout', lens=[int(x) for x in rng.integers(1, 9, size=12)], inner=[3], dtype='float32', layout=layout)
    # 4. degenerate values (all-zero chunks, constant data)
    for values in ('zeros', 'const'):
        add('degenerate-values', lens=[int(x) for x in rng.integers(1, 9, size=11)], dtype='float64', values=values,
            comp=9)
        add('degenerate-values', form='ndarray', lens=[40], inner=[3], dtype='int32', values=values)
    # 5. object reuse / call history; positional arguments
    for j in range(ctx.n(4, 40)):
        add('reuse', lens=[int(x) for x in rng.integers(1, 9, size=int(rng.integers(1, 13)))],
            dtype=str(rng.choice(DTYPES)), inner=INNERS[j % 3], comp=COMPS[j % 3], reuse=True,
            form='ndarray' if j % 5 == 4 else 'ragged')
        if cases[-1]['form'] == 'ndarray':
            cases[-1]['lens'] = cases[-1]['lens'][:1]
    for j in range(ctx.n(3, 20)):
        add('positional', lens=[int(x) for x in rng.integers(1, 9, size=int(rng.integers(1, 13)))],
            dtype=str(rng.choice(DTYPES)), inner=INNERS[j % 3], comp=COMPS[j % 3], tag=TAGS[j % 4], positional=True)
    return cases


def gen_ra_cases(ctx):
    rng = ctx.rng
    cases = []
    counts = list(ROWCOUNTS_QUICK) + (ROWCOUNTS_THOROUGH if ctx.thorough else [])
    per = ctx.n(3, 8)
    k = int(rng.integers(0, 1000))
    for n in counts:
        for j in range(per if n < 900 else 3):
            k += 1
            maxlen = 7 if n <= 101 else 4
            lens = [int(x) for x in rng.integers(1, maxlen + 1, size=n)]
            if j == 1:
                lens = [int(rng.integers(1, maxlen + 1))] * n          # rectangular ragged array
            cases.append({'kind': 'ra', 'form': 'ragged', 'lens': lens, 'inner': INNERS[k % 3],
                          'dtype': DTYPES[(k * 7) % len(DTYPES)], 'comp': COMPS[(k // 3) % 3],
                          'tag': TAGS[k % len(TAGS)], 'vseed': int(rng.integers(1, 2**31))})
    for _ in range(ctx.n(24, 400)):
        n = int(rng.integers(1, 14))
        cases.append({'kind': 'ra', 'form': 'ragged', 'lens': [int(x) for x in rng.integers(1, 12, size=n)],
                      'inner': INNERS[int(rng.integers(0, 3))], 'dtype': str(rng.choice(DTYPES)),
                      'comp': int(rng.choice(COMPS)), 'tag': str(rng.choice(TAGS)),
                      'vseed': int(rng.integers(1, 2**31))})
    for _ in range(ctx.n(8, 80)):
        cases.append({'kind': 'ra', 'form': 'ndarray', 'lens': [int(rng.integers(1, 30))],
                      'inner': INNERS[int(rng.integers(0, 3))], 'dtype': str(rng.choice(DTYPES)),
                      'comp': int(rng.choice(COMPS)), 'tag': 'arr', 'vseed': int(rng.integers(1, 2**31))})
    cases += gen_blindspot_ra_cases(ctx)
    # known-finding probe: a row of length zero
    cases.append({'kind': 'ra', 'form': 'ragged', 'lens': [2, 0, 3], 'inner': [], 'dtype': 'int64', 'comp': 1,
                  'tag': 'arr', 'vseed': 77, 'strides': [1, 2]})
    return cases


# --------------------------------------------------------------------------- arbitrary HDF5 files

def check_h5(ctx, case, tmp):
    """ra.load on a harness-written file with arbitrary node names / dtypes / shapes"""
    import tables
    from enspara import ra
    fn = os.path.join(tmp, 'gen_%d.h5' % (case['vseed'] % 100000))
    arrays = {}
    with tables.open_file(fn, 'w') as h:
        for j, nd in enumerate(case['nodes']):
            a = _values(case['vseed'] + j, nd['dtype'], (nd['len'],) + tuple(nd['inner']))
            arrays[nd['name']] = a
            h.create_carray('/', nd['name'], obj=a)
    with tables.open_file(fn) as h:
        listed = [k.name for k in h.list_nodes('/')]
    nodes_json = [{'name': nd['name'], 'dtype': nd['dtype'], 'inner': nd['inner'],
                   'data': _entries(arrays[nd['name']])} for nd in case['nodes']]
    keys, s = case['keys'], case['stride']
    m = ctx.driver([{'op': 'C15.loadfile', 'nodes': nodes_json, 'keys': keys, 'stride': s},
                    {'op': 'C15.listing', 'names': [nd['name'] for nd in case['nodes']]}])
    ctx.case(case, nontrivial=len(case['nodes']) >= 2, tags=['h5-generic', 'h5-' + case['expect']])
    if m[1].get('ok') != listed:
        ctx.disagreement('Model.Store.listNodes differs from PyTables list_nodes', dict(case, listed=listed, model=m[1]))
    if sorted(arrays) != listed:
        ctx.disagreement('PyTables listing is not sorted(names)', dict(case, listed=listed))
    try:
        got = ra.load(fn, stride=s) if keys is None else ra.load(fn, keys=keys, stride=s)
        real = ('ok', got)
    except Exception as e:  # noqa
        real = ('error', _err_kind(e))
    sel = listed if keys is None else keys
    uniform = (all(k in arrays for k in sel) and len(sel) >= 1
               and len({(arrays[k].dtype.str, arrays[k].shape[1:]) for k in sel}) == 1)
    if real[0] == 'ok':
        grows, glens, plain, gdtype, consistent = _rows_of(real[1])
        if s == 0:
            ctx.disagreement('ra.load accepted stride 0 (model: value-error)', case)
            return
        if uniform:
            exp = [arrays[k][::s] for k in sel]
            if (not consistent or len(grows) != len(exp) or any(not _same_bytes(g, e) for g, e in zip(grows, exp))
                    or glens != [len(e) for e in exp]):
                ctx.violation('load of selected keys differs from the nodes sliced [::stride], in key order', case)
                return
        mm = m[0].get('ok')
        if not mm or mm['rows'] != [_entries(g) for g in grows] or mm['lengths'] != glens or mm['plain'] != plain:
            ctx.disagreement('Model.Store.load differs from ra.load on a generic file', dict(case, model=str(m[0])[:300]))
    else:
        if uniform and s >= 1:
            ctx.violation('ra.load raised %s on a loadable key selection' % real[1], case)
            return
        if m[0].get('error') != real[1]:
            ctx.disagreement('error branch: ra.load -> %s, model -> %s' % (real[1], m[0]), case)
    try:
        os.unlink(fn)
    except OSError:
        pass


def gen_h5_cases(ctx):
    rng = ctx.rng
    names_pool = ['key0', 'key1', 'key2', 'Key', 'a_10', 'a_9', 'a10', 'z', 'B_1', 'arr_00', 'arr_1', 'n_001']
    cases = []
    for j in range(ctx.n(36, 300)):
        k = int(rng.integers(1, 6))
        names = [str(x) for x in rng.choice(names_pool, size=k, replace=False)]
        dtype = str(rng.choice(['int32', 'float64', 'int16']))
        inner = INNERS[int(rng.integers(0, 3))]
        nodes = [{'name': nm, 'dtype': dtype, 'inner': inner, 'len': int(rng.integers(1, 12))} for nm in names]
        expect = 'ok'
        mode = j % 9
        keys = None if mode in (0, 1) else [str(x) for x in rng.permutation(names)[:int(rng.integers(1, k + 1))]]
        stride = int(rng.integers(1, 6))
        if mode == 5 and k >= 2:
            nodes[-1]['dtype'] = 'float32'
            keys, expect = None, 'dtype-mismatch'
        elif mode == 6 and k >= 2:
            nodes[-1]['inner'] = [4] if inner != [4] else [5]
            keys, expect = None, 'shape-mismatch'
        elif mode == 7:
            keys, expect = (keys or names[:1]) + ['nope'], 'missing-key'
        elif mode == 8:
            keys, expect = [], 'no-keys'
        elif mode == 4 and k >= 2:
            nodes[0]['inner'] = (inner + [2]) if len(inner) < 2 else [3]
            keys, expect = None, 'ndim-mismatch'
        cases.append({'kind': 'h5', 'nodes': nodes, 'keys': keys, 'stride': stride, 'expect': expect,
                      'vseed': int(rng.integers(1, 2**31))})
    cases.append({'kind': 'h5', 'nodes': [{'name': 'a', 'dtype': 'int32', 'inner': [], 'len': 5},
                                          {'name': 'b', 'dtype': 'int32', 'inner': [], 'len': 4}],
                  'keys': None, 'stride': 0, 'expect': 'stride-zero', 'vseed': 5})
    cases.append({'kind': 'h5', 'nodes': [{'name': 'a', 'dtype': 'int32', 'inner': [], 'len': 5}],
                  'keys': ['a'], 'stride': 0, 'expect': 'stride-zero', 'vseed': 6})
    return cases


# --------------------------------------------------------------------------- trajectories

def _topology():
    import mdtraj as md
    top = md.Topology()
    ch = top.add_chain()
    for k in range(N_ATOMS):
        r = top.add_residue('ALA', ch)
        top.add_atom('CA', md.element.carbon, r)
    return top


class TrajPool:
    """deterministic tiny trajectory files (content depends on (pseed, index) only)"""

    def __init__(self, tmp, pseed):
        self.tmp, self.pseed = tmp, pseed
        self.top = _topology()
        self.made = {}

    def path(self, idx, length, fmt):
        import mdtraj as md
        key = (idx, length, fmt)
        if key not in self.made:
            rng = np.random.default_rng([self.pseed, idx, length])
            xyz = rng.normal(scale=2.0, size=(length, N_ATOMS, 3)).astype(np.float32)
            if idx >= 1000:
                xyz[:] = 0.0                               # degenerate: an all-zero trajectory
            fn = os.path.join(self.tmp, 'p%d_t%03d_%d.%s' % (self.pseed % 1000, idx, length, fmt))
            md.Trajectory(xyz, self.top).save(fn)
            self.made[key] = fn
        return self.made[key]


def _kw_sig(kw):
    """identifies one task of a call even when the same file name occurs several times"""
    parts = []
    for k in sorted(kw):
        if k == 'top':
            continue
        v = kw[k]
        parts.append('%s=%s' % (k, [int(x) for x in v] if hasattr(v, '__len__') else int(v)))
    return ';'.join(parts)


class MdProxy:
    """stands in for the `md` module inside enspara.util.load: delays and logs worker loads"""

    def __init__(self, md, delays, logfile, main_pid):
        self._md, self._delays, self._log, self._pid = md, delays, logfile, main_pid

    def __getattr__(self, k):
        return getattr(self._md, k)

    def load(self, fn, **kw):
        r = self._md.load(fn, **kw)
        if os.getpid() != self._pid:
            key = os.path.basename(fn) + '|' + _kw_sig(kw)
            time.sleep(self._delays.get(key, 0.0))
            fd = os.open(self._log, os.O_WRONLY | os.O_APPEND | os.O_CREAT)
            try:
                os.write(fd, (key + '\n').encode())
            finally:
                os.close(fd)
        return r


def _frames_ints(xyz):
    xyz = np.ascontiguousarray(xyz, dtype=np.float32)
    return _entries(xyz)


def check_concat(ctx, case, tmp, pools):
    import mdtraj as md
    from enspara.util import load as L
    pool = pools.setdefault(case['pseed'], TrajPool(tmp, case['pseed']))
    files = [pool.path(f['idx'], f['len'], f['fmt']) for f in case['files']]
    top = pool.top
    k = len(files)

    def kw_for(i):
        f = case['files'][i]
        kw = {}
        if f['fmt'] == 'xtc':
            kw['top'] = top
        a = case['per_file'][i] if case['mode'] == 'args' else case['common']
        if a.get('stride', 1) != 1 or a.get('stride_explicit'):
            kw['stride'] = _stride_obj(a.get('stride', 1), case.get('stride_as', 'int'))
        if a.get('atoms') is not None:
            kw['atom_indices'] = {'ndarray': np.array, 'list': list, 'tuple': tuple}[case.get('atoms_as', 'ndarray')](a['atoms'])
        if a.get('frame') is not None:
            kw['frame'] = a['frame']
        return kw

    kws = [kw_for(i) for i in range(k)]
    # the property's right-hand side: individually loaded (strided, atom-selected) trajectories
    indiv = [md.load(f, **kw).xyz for f, kw in zip(files, kws)]
    exp_xyz = np.concatenate(indiv)
    exp_lengths = [len(x) for x in indiv]
    nframes = []
    for f in files:
        with md.open(f) as fh:
            nframes.append(len(fh))
    specs = []
    for i in range(k):
        st = int(kws[i].get('stride', 1))
        hf = 'frame' in kws[i]
        if len(indiv[i]) != (1 if hf else math.ceil(nframes[i] / st)):
            ctx.disagreement('mdtraj stride contract does not hold', dict(case, file=i))
            return
        if nframes[i] != case['files'][i]['len']:
            ctx.disagreement('md.open length differs from what the harness wrote', dict(case, file=i))
            return
        specs.append({'n_frames': nframes[i], 'stride': st, 'has_frame': hf, 'loaded': _frames_ints(indiv[i])})
    hint = None
    if case['hint'] == 'correct':
        hint = list(exp_lengths)
    elif case['hint'] == 'short-list':
        hint = list(exp_lengths)[:-1]
    elif case['hint'] == 'total-small':
        hint = list(exp_lengths)
        j = max(range(k), key=lambda t: exp_lengths[t])
        hint[j] -= 1
    elif case['hint'] == 'total-big':
        hint = list(exp_lengths)
        hint[case['hint_pos'] % k] += 2
    if hint is not None:
        hint = {'list': list, 'tuple': tuple, 'ndarray': np.array}[case.get('hint_as', 'list')](hint)
    hint_snapshot = None if hint is None else [int(x) for x in hint]
    task_keys = [os.path.basename(f) + '|' + _kw_sig(kw) for f, kw in zip(files, kws)]
    delays = {tk: d for tk, d in zip(task_keys, case['delays'])}
    logfile = os.path.join(tmp, 'done_%d.log' % case['cid'])
    call = {'processes': case['processes']}
    if hint is not None:
        call['lengths'] = hint
    if case['mode'] == 'args':
        call['args'] = kws
    else:
        call.update(kws[0])          # common kwargs (identical for every file by construction)
    procs = case['processes']
    files_as = case.get('files_as', 'iter' if case['cid'] % 7 == 3 else 'list')
    tags = ['files=%s' % (k if k <= 16 else '>16'), 'processes=%s' % procs, 'mode=' + case['mode'],
            'hint=' + case['hint'], 'delay=' + case['delay'], 'files-as-' + files_as]
    tags += sorted({'fmt=' + f['fmt'] for f in case['files']})
    if procs is not None:
        tags.append('files>processes' if k > procs else ('processes>files' if procs > k else 'files=processes'))
    for opt in ('family', 'hint_as', 'atoms_as', 'stride_as'):
        if opt in case:
            tags.append('%s=%s' % (opt.replace('_as', '-as'), case[opt]))
    if 'frame' in kws[0] and k >= 2:
        tags.append('first-file-has-frame')
    if len(set(files)) < k:
        tags.append('same-file-listed-twice')
        if len(set(task_keys)) > len(set(files)):
            tags.append('same-file-different-kwargs')
    if len({tuple(sorted(kw)) for kw in kws}) >= 3:
        tags.append('per-file-args-of-3+-kinds')
    ctx.case(case, nontrivial=k >= 2, tags=tags)
    files_obj = {'list': list, 'tuple': tuple, 'iter': iter, 'ndarray': np.array}[files_as](files)
    args_snapshot = [sorted((kk, repr(v)) for kk, v in kw.items() if kk != 'top') for kw in kws]

    def do_call(delayed):
        orig_md = L.md
        if delayed:
            L.md = MdProxy(orig_md, delays, logfile, os.getpid())
        try:
            try:
                if case.get('positional') and case['mode'] == 'args':
                    return ('ok', L.load_as_concatenated(files_obj, hint, procs, kws))
                return ('ok', L.load_as_concatenated(files_obj, **call))
            except Exception as e:  # noqa
                return ('error', _err_kind(e))
        finally:
            L.md = orig_md

    real = do_call(True)
    if [sorted((kk, repr(v)) for kk, v in kw.items() if kk != 'top') for kw in kws] != args_snapshot:
        ctx.violation('load_as_concatenated modified the per-file argument dictionaries it was given', case)
        return
    if hint is not None and [int(x) for x in hint] != hint_snapshot:
        ctx.violation('load_as_concatenated modified the lengths hint it was given', case)
        return
    order = []
    if os.path.exists(logfile):
        with open(logfile) as fh:
            done = [l.strip() for l in fh if l.strip()]
        # map every logged load back to a task (identical tasks are interchangeable: first unmatched one)
        free = list(range(k))
        for dn in done:
            for i in free:
                if task_keys[i] == dn:
                    order.append(i)
                    free.remove(i)
                    break
        os.unlink(logfile)
    if sorted(order) != list(range(k)):
        order = list(range(k))
        ctx.tag('completion-order-unobserved')
    elif order != list(range(k)):
        ctx.tag('late-file-finished-first')
    else:
        ctx.tag('completed-in-file-order')
    reqs = [{'op': 'C15.concat', 'specs': specs, 'hint': hint_snapshot, 'order': o}
            for o in (order, order[::-1], list(range(k)))]
    model = ctx.driver(reqs)
    wrong = case['hint'] in ('short-list', 'total-small', 'total-big')
    if real[0] == 'error':
        if not wrong:
            ctx.violation('load_as_concatenated raised %s on valid input' % real[1], case)
            return
        ctx.tag('wrong-hint-rejected')
        if any('error' not in m for m in model):
            ctx.disagreement('model accepts a wrong hint the code rejects (%s)' % real[1], dict(case, model=str(model[0])[:200]))
        elif model[0]['error'] != real[1] and len({m['error'] for m in model}) == 1:
            ctx.disagreement('error kind: code %s, model %s' % (real[1], model[0]['error']), case)
        return
    lengths, xyz = real[1]
    if wrong:
        ctx.disagreement('a hint with a wrong total/length was accepted by load_as_concatenated', case)
        return
    lengths = [int(x) for x in lengths]
    if lengths != exp_lengths:
        ctx.violation('returned lengths %s != lengths of the individually loaded trajectories %s'
                      % (lengths, exp_lengths), case)
        return
    if xyz.shape != exp_xyz.shape or xyz.dtype != exp_xyz.dtype or not _same_bytes(np.asarray(xyz), exp_xyz):
        where = 'shape %s vs %s' % (xyz.shape, exp_xyz.shape)
        if xyz.shape == exp_xyz.shape:
            badf = np.where((np.asarray(xyz).view(np.uint32) != exp_xyz.view(np.uint32)).any(axis=(1, 2)))[0]
            where = 'frames %s' % badf[:6].tolist()
        ctx.violation('parallel load differs from the concatenation in file order (%s)' % where, case)
        return
    if case.get('twice') and files_as != 'iter':
        # call history: a second call must give the same answer and must not disturb the first result
        ctx.tag('reuse-call-twice')
        again = do_call(False)
        if again[0] != 'ok' or [int(x) for x in again[1][0]] != exp_lengths or not _same_bytes(np.asarray(again[1][1]), exp_xyz):
            ctx.violation('second identical call of load_as_concatenated gives a different result', case)
            return
        again[1][1][...] = 0.0
        if not _same_bytes(np.asarray(xyz), exp_xyz):
            ctx.violation('result of the first call changed when the second result was overwritten (shared buffer)', case)
            return
    got_ints = _frames_ints(np.asarray(xyz))
    for m in model:
        ok = m.get('ok')
        if not ok or ok['lengths'] != lengths or ok['xyz'] != got_ints:
            ctx.disagreement('Model.Store.loadAsConcatenated differs from load_as_concatenated',
                             dict(case, model=str(m)[:200]))
            break


def gen_concat_cases(ctx):
    rng = ctx.rng
    pseed = int(rng.integers(1, 2**20))
    npool = ctx.n(12, 40)
    pool_lens = [int(x) for x in rng.choice([1, 2, 3, 4, 5, 7, 8, 9, 11, 13], size=npool)]
    pool_lens[0], pool_lens[1] = 1, 7
    pool_fmt = ['h5' if (i % 2 == 0) else 'xtc' for i in range(npool)]
    cases = []
    ncases = ctx.n(30, 200)
    for c in range(ncases):
        procs = (c % 8) + 1
        kmax = 8 if not ctx.thorough else 16
        k = int(rng.integers(1, kmax + 1)) if c % 5 else 1 + (c % 3)
        mode = ['args', 'common', 'args', 'none'][c % 4]
        if mode == 'args':
            cand = list(range(npool))
        else:
            fmt = 'h5' if rng.random() < 0.5 else 'xtc'
            cand = [i for i in range(npool) if pool_fmt[i] == fmt]
        k = min(k, len(cand))
        idxs = [int(x) for x in rng.choice(cand, size=k, replace=False)]
        files = [{'idx': i, 'len': pool_lens[i], 'fmt': pool_fmt[i]} for i in idxs]
        natoms_sel = int(rng.integers(1, N_ATOMS))
        common, per_file = {}, []
        if mode == 'common':
            common = {'stride': int(rng.integers(1, 6))}
            if rng.random() < 0.5:
                common['atoms'] = sorted(int(x) for x in rng.choice(N_ATOMS, size=natoms_sel, replace=False))
        elif mode == 'args':
            use_atoms = rng.random() < 0.5
            for f in files:
                a = {'stride': int(rng.integers(1, 5))}
                if use_atoms:
                    a['atoms'] = sorted(int(x) for x in rng.choice(N_ATOMS, size=natoms_sel, replace=False))
                if rng.random() < 0.2:
                    a = {k2: v for k2, v in a.items() if k2 != 'stride'}
                    a['frame'] = int(rng.integers(0, f['len']))
                per_file.append(a)
        hint = ['none', 'correct', 'none', 'none', 'correct', 'none'][c % 6]
        if c % 13 == 5 and k >= 2:
            hint = 'short-list'
        elif c % 13 == 9:
            hint = 'total-big'
        elif c % 13 == 11 and k >= 2:
            # a too-short window always breaks with a broadcast error when the file has >= 2 frames
            hint = 'total-small'
        delay = ['reverse', 'none', 'random', 'reverse'][c % 4] if k >= 2 else 'none'
        unit = 0.03 if k <= 6 else 0.015
        if delay == 'reverse':
            delays = [round(unit * (k - 1 - i), 3) for i in range(k)]
        elif delay == 'random':
            delays = [round(float(x), 3) for x in rng.uniform(0, unit * 3, size=k)]
        else:
            delays = [0.0] * k
        if procs == 1:
            delays = [min(d, 0.01) for d in delays]
        cases.append({'kind': 'concat', 'cid': c, 'pseed': pseed, 'files': files, 'processes': procs, 'mode': mode,
                      'common': common, 'per_file': per_file, 'hint': hint, 'hint_pos': int(rng.integers(0, 64)),
                      'delay': delay, 'delays': delays})
        if c % 4 == 1 and hint in ('none', 'correct'):
            cases[-1]['twice'] = True
    cases += gen_blindspot_concat_cases(ctx, pseed, ncases)
    return cases


def gen_blindspot_concat_cases(ctx, pseed, cid0):
    """families added by the generator blind-spot audit"""
    rng = ctx.rng
    cases = []
    allatoms = list(range(N_ATOMS))

    def add(family, lens, fmts, procs, mode='args', per_file=None, common=None, hint='none', delay='reverse', **kw):
        k = len(lens)
        files = [{'idx': 500 + 20 * len(cases) + i, 'len': n, 'fmt': f} for i, (n, f) in enumerate(zip(lens, fmts))]
        unit = 0.02 if k <= 6 else 0.006
        delays = [round(unit * (k - 1 - i), 3) for i in range(k)] if delay == 'reverse' else [0.0] * k
        c = {'kind': 'concat', 'cid': cid0 + len(cases), 'pseed': pseed, 'files': files, 'processes': procs,
             'mode': mode, 'common': common or {}, 'per_file': per_file or [], 'hint': hint, 'hint_pos': 0,
             'delay': delay, 'delays': delays, 'family': family}
        c.update(kw)
        cases.append(c)

    hx = lambda k: ['h5' if i % 2 == 0 else 'xtc' for i in range(k)]   # noqa
    # 6. every residue of n_frames modulo the stride (strides 3, 4, 5; files shorter than the stride), more files
    #    than processes
    for st in (3, 4, 5) if ctx.thorough else (3, 5):
        add('all-residues', list(range(1, 14)), ['h5'] * 13, 3, mode='common', common={'stride': st})
    add('all-residues', list(range(13, 0, -1)), hx(13), 4, per_file=[{'stride': 3 + (i % 3)} for i in range(13)])
    # 6. per-file args of different kinds in one call; first file selected by frame
    add('mixed-kinds', [5, 7, 9, 4, 6], hx(5), 3,
        per_file=[{}, {'stride': 3}, {'frame': 2}, {'stride': 2, 'atoms': allatoms}, {'stride': 1, 'stride_explicit': True}])
    add('mixed-kinds', [8, 3, 11], hx(3), 2,
        per_file=[{'frame': 7, 'atoms': [0, 2, 4]}, {'stride': 4, 'atoms': [1, 2, 3]}, {'atoms': [3, 4, 5]}])
    add('mixed-kinds', [6, 6], ['xtc', 'xtc'], 2, per_file=[{'frame': 0}, {'frame': 5}], twice=True)
    # 1./6. processes > files, processes = None (cpu count), one file
    add('processes>files', [4, 9], hx(2), 8, per_file=[{'stride': 2}, {'stride': 3}])
    add('processes>files', [7], ['xtc'], 5, per_file=[{'stride': 3}])
    add('processes>files', [3, 5, 2], ['h5'] * 3, None, mode='none')
    # 2. containers / numeric types of every argument
    for j, (hint_as, atoms_as, stride_as, files_as) in enumerate([
            ('ndarray', 'list', 'np.int64', 'tuple'), ('tuple', 'tuple', 'np.int32', 'ndarray'),
            ('ndarray', 'ndarray', 'int', 'list'), ('list', 'list', 'np.int64', 'iter')]):
        add('containers', [5, 8, 3, 9], hx(4), 2 + j % 2, hint='correct', hint_as=hint_as, atoms_as=atoms_as,
            stride_as=stride_as, files_as=files_as,
            per_file=[{'stride': 2 + (i + j) % 3, 'atoms': [0, 1 + j % 2, 4]} for i in range(4)])
    add('containers', [6, 4, 7], ['h5'] * 3, 2, mode='common', common={'stride': 3, 'atoms': [1, 3]},
        hint='correct', hint_as='ndarray', atoms_as='tuple', stride_as='np.int64', files_as='ndarray')
    # 5. call history and positional arguments
    add('positional', [4, 6, 5], hx(3), 2, per_file=[{'stride': 2}, {}, {'stride': 3}], hint='correct', positional=True)
    add('positional', [4, 6, 5], hx(3), 3, per_file=[{'stride': 2}, {}, {'stride': 3}], positional=True, twice=True)
    # 4. degenerate: all-zero coordinates (idx >= 1000 is written with zeros)
    add('zeros', [5, 3], ['h5', 'xtc'], 2, per_file=[{'stride': 2}, {}])
    for f in cases[-1]['files']:
        f['idx'] += 1000
    # the same file listed several times with different per-file kwargs (as the library's own multiarg tests
    # do), mixed with other files, with fewer and with at least as many processes as files
    def add_dup(slots, lens, fmts, procs, per_file, **kw):
        add('duplicated-file', [lens[t] for t in slots], [fmts[t] for t in slots], procs, per_file=per_file, **kw)
        base = cases[-1]['files'][0]['idx']
        for f, t in zip(cases[-1]['files'], slots):
            f['idx'] = base + t                      # equal slot -> equal file name

    L3, F3 = [9, 5, 12], ['xtc', 'h5', 'h5']
    add_dup([0, 0], L3, F3, 1, [{'atoms': [1, 3, 5]}, {'atoms': [0, 2, 4]}])
    add_dup([0, 0], L3, F3, 2, [{'atoms': [1, 3, 5]}, {'atoms': [0, 2, 4]}], delay='none')
    add_dup([0, 1, 0, 2], L3, F3, 2, [{'atoms': [0, 1]}, {'atoms': [2, 3]}, {'atoms': [4, 5]}, {'atoms': [1, 4]}])
    add_dup([2, 0, 2, 1, 2], L3, F3, 3, [{'stride': 2}, {'stride': 3}, {'stride': 5}, {}, {'stride': 1, 'stride_explicit': True}])
    add_dup([1, 2, 1, 2], L3, F3, 2, [{'frame': 0}, {'stride': 4}, {'frame': 4}, {'stride': 3}])
    add_dup([0, 2, 0], L3, F3, 2, [{'stride': 2, 'atoms': [0, 5]}, {'atoms': [2, 3]}, {'frame': 7, 'atoms': [1, 2]}],
            hint='correct')
    add_dup([0, 1, 0, 1], L3, F3, 8, [{'stride': 2}, {'stride': 3}, {'stride': 4}, {}])
    add_dup([1, 1, 1], L3, F3, 2, [{'stride': 2}, {'stride': 2}, {'stride': 3}], twice=True)
    if ctx.thorough:
        for _ in range(30):
            nslots = int(rng.integers(1, 4))
            k = int(rng.integers(2, 9))
            slots = [int(x) for x in rng.integers(0, nslots, size=k)]
            slots[-1] = slots[0]
            lens = [int(x) for x in rng.integers(3, 14, size=nslots)]
            fmts = [str(x) for x in rng.choice(['h5', 'xtc'], size=nslots)]
            nsel = int(rng.integers(1, N_ATOMS))
            kind = int(rng.integers(0, 3))
            pf = []
            for t in slots:
                a = {}
                if kind in (0, 2):
                    a['atoms'] = sorted(int(x) for x in rng.choice(N_ATOMS, size=nsel, replace=False))
                if kind in (1, 2):
                    a['stride'] = int(rng.integers(1, 5))
                if rng.random() < 0.15:
                    a.pop('stride', None)
                    a['frame'] = int(rng.integers(0, lens[t]))
                pf.append(a)
            add_dup(slots, lens, fmts, int(rng.integers(1, k + 2)), pf,
                    hint='correct' if rng.random() < 0.3 else 'none')
    # 1. many files on few processes and few files on many processes (thorough)
    if ctx.thorough:
        add('many-files', [int(x) for x in rng.integers(1, 9, size=40)], hx(40), 3,
            per_file=[{'stride': int(x)} for x in rng.integers(1, 4, size=40)])
        add('many-files', [int(x) for x in rng.integers(1, 9, size=64)], ['h5'] * 64, 7, mode='common',
            common={'stride': 2}, delay='none')
        add('processes>files', [9, 2, 6], hx(3), 16, per_file=[{'stride': 2}, {}, {'stride': 4}])
        add('long-trajectory', [3000, 1, 257], ['h5', 'xtc', 'h5'], 3, per_file=[{'stride': 7}, {}, {'stride': 256}],
            delay='none')
    return cases


def check_empty_call(ctx):
    """no files at all: the code evaluates args[0] first and raises IndexError; the model mirrors it"""
    from enspara.util import load as L
    variants = [('plain', {}, None), ('processes', {'processes': 2}, None), ('hint', {'lengths': []}, []),
                ('args', {'args': []}, None), ('kwargs', {'stride': 2}, None)]
    model = ctx.driver([{'op': 'C15.concat', 'specs': [], 'hint': h, 'order': []} for _, _, h in variants])
    for (name, kw, _), m in zip(variants, model):
        case = {'kind': 'concat-empty', 'variant': name}
        ctx.case(case, nontrivial=False, tags=['files=0'])
        try:
            res = L.load_as_concatenated([], **kw)
            real = 'ok %r' % (res,)
        except Exception as e:  # noqa
            real = _err_kind(e)
        if m.get('error') != real:
            ctx.disagreement('load_as_concatenated([]) (%s): code %s, model %s' % (name, real[:60], m), case)


# --------------------------------------------------------------------------- mpi/io.py reuse (world size 1)

def check_mpi_reuse(ctx, tmp):
    try:
        from enspara.mpi import io as mio
        from enspara import ra
    except Exception as e:  # noqa
        ctx.skip('enspara.mpi.io not importable: %s' % type(e).__name__)
        return
    import mdtraj as md
    rng = ctx.rng
    for j in range(ctx.n(3, 12)):
        lens = [int(x) for x in rng.integers(1, 9, size=int(rng.integers(2, 12)))]
        flat = _values(1000 + j, 'float32', (sum(lens), 3))
        fn = os.path.join(tmp, 'mpi_%d.h5' % j)
        ra.save(fn, ra.RaggedArray(array=flat, lengths=lens))
        s = int(rng.integers(1, 4))
        try:
            glens, local = mio.load_h5_as_striped(fn, stride=s)
        except Exception as e:  # noqa
            ctx.skip('load_h5_as_striped raised %s at world size 1' % type(e).__name__)
            continue
        rows, start = [], 0
        for n in lens:
            rows.append(flat[start:start + n][::s])
            start += n
        ctx.case({'kind': 'mpi-h5', 'lens': lens, 'stride': s}, nontrivial=True, tags=['mpi-io-h5'])
        if not _same_bytes(np.asarray(local), np.concatenate(rows)):
            ctx.violation('load_h5_as_striped (1 rank) data differ from the strided rows in row order',
                          {'kind': 'mpi-h5', 'lens': lens, 'stride': s, 'vseed': 1000 + j})
    pool = TrajPool(tmp, 4242)
    for j in range(ctx.n(2, 6)):
        k = int(rng.integers(1, 5))
        files = [pool.path(i, int(rng.integers(1, 9)), 'h5') for i in range(j * 10, j * 10 + k)]
        s = int(rng.integers(1, 4))
        try:
            glens, xyz = mio.load_trajectory_as_striped(files, processes=2, stride=s)
        except Exception as e:  # noqa
            ctx.skip('load_trajectory_as_striped raised %s at world size 1' % type(e).__name__)
            continue
        exp = [md.load(f, stride=s).xyz for f in files]
        ctx.case({'kind': 'mpi-trj', 'k': k, 'stride': s, 'j': j}, nontrivial=k >= 2, tags=['mpi-io-trj'])
        if [int(x) for x in glens] != [len(e) for e in exp] or not _same_bytes(np.asarray(xyz), np.concatenate(exp)):
            ctx.violation('load_trajectory_as_striped (1 rank) differs from the concatenation in file order',
                          {'kind': 'mpi-trj', 'k': k, 'stride': s, 'j': j})


# --------------------------------------------------------------------------- entry points

def run(ctx):
    tmp = _mk_tmp()
    t0 = time.time()
    try:
        submodel_scope(ctx)
        for case in gen_ra_cases(ctx):
            check_ra(ctx, case, tmp)
        t1 = time.time()
        for case in gen_h5_cases(ctx):
            check_h5(ctx, case, tmp)
        t2 = time.time()
        pools = {}
        for case in gen_concat_cases(ctx):
            check_concat(ctx, case, tmp, pools)
        check_empty_call(ctx)
        t3 = time.time()
        check_mpi_reuse(ctx, tmp)
        ctx.note('phase_seconds', {'ra': round(t1 - t0, 1), 'h5': round(t2 - t1, 1),
                                   'pool': round(t3 - t2, 1), 'mpi': round(time.time() - t3, 1)})
    finally:
        shutil.rmtree(tmp, ignore_errors=True)


def replay(ctx, data):
    tmp = _mk_tmp()
    try:
        kind = data.get('kind')
        if kind == 'ra':
            keep = ('kind', 'form', 'lens', 'inner', 'dtype', 'comp', 'tag', 'vseed', 'strides', 'family', 'layout',
                    'values', 'positional', 'reuse')
            check_ra(ctx, {k: data[k] for k in keep if k in data}, tmp)
        elif kind == 'h5':
            check_h5(ctx, {k: data[k] for k in ('kind', 'nodes', 'keys', 'stride', 'expect', 'vseed')}, tmp)
        elif kind == 'concat':
            keep = ('kind', 'cid', 'pseed', 'files', 'processes', 'mode', 'common', 'per_file', 'hint', 'hint_pos',
                    'delay', 'delays', 'family', 'hint_as', 'atoms_as', 'stride_as', 'files_as', 'positional', 'twice')
            check_concat(ctx, {k: data[k] for k in keep if k in data}, tmp, {})
        elif kind == 'submodel':
            rq = {k: v for k, v in data.items() if k not in ('kind', 'model', 'python')}
            r = ctx.driver([rq])[0]
            if r.get('ok') != data.get('python'):
                ctx.disagreement('sub-model %s differs from Python' % rq.get('op'), data)
        elif kind == 'names':
            n = data['nrows']
            names = [_expected_key('arr', i, n) for i in range(n)]
            if sorted(names) != names:
                ctx.violation('zero-padded key names do not sort in row order (python sorted)', data)
        elif kind == 'concat-empty':
            check_empty_call(ctx)
        elif kind in ('mpi-h5', 'mpi-trj'):
            check_mpi_reuse(ctx, tmp)
        else:
            raise ValueError('unknown replay kind %r' % kind)
    finally:
        shutil.rmtree(tmp, ignore_errors=True)
