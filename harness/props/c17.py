"""C17 - pathways are real, bottleneck-optimal and never over-explain the flux.

Real `enspara.tpt.paths` / `enspara.tpt.top_path` against the Lean model `Ens.Paths`
(`C17.paths`, `C17.top_path` driver ops) and against the property's own words, evaluated
with an independent oracle (exhaustive simple-path enumeration on the residual matrices).
"""
import itertools
from fractions import Fraction

import numpy as np

MIRRORS = [('enspara/tpt/path.py', None)]

RULE = ('random integer-weighted flux matrices, n = 1..9: (a) acyclic conserved flows built by '
        'superposing source->sink paths in a random topological order, (b) arbitrary weighted '
        'digraphs with cycles / self-loops / tie-heavy weights, (c) degenerate inputs (no path, '
        'empty or out-of-range source/sink lists, source that is also a sink, repeated sources); '
        '1..3 sources and sinks; both removal schemes; num_paths in {default inf, 0, 1, 2, 3, 5}; '
        'flux_cutoff in {default 1-1e-10, 0, .25, .37, .5, .9, 1.0, 2.0}; float64/float32, C/F order, '
        'matrix scaled by a power of two 2^-40..2^20 (exact in floating point: covers non-integer matrices and '
        'the 1e-9..1e-12 magnitudes of real MSM net fluxes); (d) near-tie family: fluxes B, B+1, B+2 with '
        'B ~ 1e6..1e7 (relative gap 1e-6..1e-7) on diamonds / shared prefixes / ladders / superposed flows; '
        'a case is non-trivial when at least one pathway is returned; distinct by canonical input')
ASSUMPTIONS = [
    'float64/float32 arithmetic (compare, min, subtract) on integers times a power of two is exact, so the '
    'Nat model and the real code must agree exactly on paths and (rescaled) fluxes',
    'the explained-flux comparison `expl_flux >= flux_cutoff` is done in floating point by the code and '
    'exactly by the model; cases whose exact explained fraction is within 1e-12 of the cut-off are '
    'compared against the model on both sides of the cut-off (tag cutoff-tie)',
    'dense ndarray input only, as documented by the code (scipy.sparse matrices/arrays make top_path raise '
    'ValueError inside np.where: not a supported container, not exercised)',
    'the oracle for "largest bottleneck of all source-to-sink paths" enumerates simple paths depth-first '
    'and only prunes branches whose running minimum cannot exceed the best found so far',
]
TRUSTED_EXTRA = ['Python oracle in harness/props/c17.py (simple-path enumeration, residual bookkeeping)']

KEY_BOTTLENECK = 'bottleneck-scheme-shared-edge-overuse'

DEFAULT_CUTOFF = 1 - 1E-10


# ----------------------------------------------------------------------------- oracle

def best_bottleneck(R, S, T, prune=True):
    """max over all simple paths source->sink (length >= 1 edge) of the min edge weight; 0 if none.
    Exhaustive depth-first enumeration (with safe pruning)."""
    n = len(R)
    Tset = set(T)
    best = 0
    adj = [[j for j in range(n) if R[i][j] > 0 and j != i] for i in range(n)]

    def dfs(u, cur, seen):
        nonlocal best
        for v in adj[u]:
            if v in seen:
                continue
            c = min(cur, R[u][v])
            if prune and c <= best:
                continue
            if v in Tset:
                if c > best:
                    best = c
            seen.add(v)
            dfs(v, c, seen)
            seen.discard(v)

    for s in set(S):
        dfs(s, float('inf'), {s})
    return best


def check_sequence(F, S, T, scheme, paths, fluxes):
    """Evaluate the per-path clauses on the residual matrices kept by this oracle.
    Returns None when all clauses hold (for some admissible choice among tied bottleneck edges),
    else a description of the first failing clause."""
    n = len(F)
    Sset, Tset = set(S), set(T)

    def rec(i, R):
        if i == len(paths):
            return None
        p, f = paths[i], fluxes[i]
        if len(p) < 2:
            return 'path %d has fewer than two nodes: %s' % (i, p)
        if any((not isinstance(v, int)) or v < 0 or v >= n for v in p):
            return 'path %d leaves the state range: %s' % (i, p)
        if len(set(p)) != len(p):
            return 'path %d is not simple: %s' % (i, p)
        if p[0] not in Sset:
            return 'path %d does not start in a source: %s' % (i, p)
        if p[-1] not in Tset:
            return 'path %d does not end in a sink: %s' % (i, p)
        ws = [R[a][b] for a, b in zip(p[:-1], p[1:])]
        if min(ws) <= 0:
            return 'path %d uses an edge without positive residual flux: %s weights %s' % (i, p, ws)
        if f != min(ws):
            return 'path %d: reported flux %r != smallest residual flux on its edges %r' % (i, f, min(ws))
        opt = best_bottleneck(R, S, T)
        if f != opt:
            return ('path %d: bottleneck %r is not the largest over all source-to-sink paths of the '
                    'residual matrix (%r)' % (i, f, opt))
        if i + 1 == len(paths):
            return None
        if scheme == 'subtract':
            R2 = [row[:] for row in R]
            for a, b in zip(p[:-1], p[1:]):
                R2[a][b] -= f
            return rec(i + 1, R2)
        err = None
        for k, w in enumerate(ws):          # tied bottleneck edges: first choice first
            if w == f:
                R2 = [row[:] for row in R]
                R2[p[k]][p[k + 1]] = 0
                e = rec(i + 1, R2)
                if e is None:
                    return None
                err = err or e
        return err

    return rec(0, [list(r) for r in F])


# ----------------------------------------------------------------------------- real code

def call_real(case, what):
    """returns (result dict, mutated flag)"""
    from enspara import tpt
    F = np.array(case['flux'], dtype=case.get('dtype', 'float64'), order=case.get('order', 'C'))
    if F.ndim != 2:
        F = F.reshape((len(case['flux']), len(case['flux'])))
    scale = case.get('scale', 1.0)          # a power of two: scaling is exact in floating point
    if scale != 1.0:
        F = np.asarray(F * F.dtype.type(scale), dtype=F.dtype, order=case.get('order', 'C'))
    cont = case.get('container', 'list')
    conv = {'list': list, 'array': lambda x: np.array(x, dtype=int), 'tuple': tuple}[cont]
    S, T = conv(case['sources']), conv(case['sinks'])
    snapF = F.tobytes()
    snapS, snapT = list(case['sources']), list(case['sinks'])
    kw = {}
    try:
        with np.errstate(all='ignore'):
            if what == 'top_path':
                p, f = tpt.top_path(S, T, F)
                f = float(f) / scale
                res = {'ok': {'path': [int(x) for x in p],
                              'flux': 'inf' if f == float('inf') else '-inf' if f == float('-inf') else f}}
            else:
                kw['remove_path'] = case['scheme']
                if case['num_paths'] is not None:
                    kw['num_paths'] = case['num_paths']
                if case['cutoff'] is not None:
                    kw['flux_cutoff'] = case['cutoff']
                ps, fs = tpt.paths(S, T, F, **kw)
                if not isinstance(fs, np.ndarray) or fs.ndim != 1 or len(fs) != len(ps):
                    res = {'shape-error': 'fluxes %r for %d paths' % (fs, len(ps))}
                else:
                    res = {'ok': [{'path': [int(x) for x in p], 'flux': float(f) / scale}
                                  for p, f in zip(ps, fs)]}
    except IndexError:
        res = {'error': 'index-error'}
    except ValueError:
        res = {'error': 'value-error'}
    except Exception as e:  # noqa
        res = {'error': type(e).__name__}
    mutated = (F.tobytes() != snapF or [int(x) for x in S] != snapS or [int(x) for x in T] != snapT)
    return res, mutated


def frac(x):
    f = Fraction(x)
    return [f.numerator, f.denominator]


def model_req(case, what, cutoff=None):
    rq = {'op': 'C17.' + what, 'flux': case['flux'], 'sources': case['sources'], 'sinks': case['sinks']}
    if what == 'paths':
        rq['scheme'] = case['scheme']
        rq['num_paths'] = case['num_paths']
        c = cutoff if cutoff is not None else (case['cutoff'] if case['cutoff'] is not None else DEFAULT_CUTOFF)
        rq['cutoff'] = frac(c)
    return rq


def canon_real(res):
    """integer-valued floats -> ints, so that the comparison with the Nat model is exact"""
    if 'ok' not in res:
        return res
    def cf(f):
        if isinstance(f, float) and f == int(f):
            return int(f)
        return f
    if isinstance(res['ok'], dict):
        return {'ok': {'path': res['ok']['path'], 'flux': cf(res['ok']['flux'])}}
    return {'ok': [{'path': r['path'], 'flux': cf(r['flux'])} for r in res['ok']]}


# ----------------------------------------------------------------------------- checks

def tags_of(case):
    t = ['kind=' + case['kind'], 'n=%d' % len(case['flux']),
         'nsrc=%d' % len(case['sources']), 'nsink=%d' % len(case['sinks'])]
    if case['what'] == 'paths':
        t += ['scheme=' + case['scheme'],
              'num_paths=' + ('default' if case['num_paths'] is None else str(case['num_paths'])),
              'cutoff=' + ('default' if case['cutoff'] is None else repr(case['cutoff']))]
    t += ['dtype=' + case.get('dtype', 'float64'), 'order=' + case.get('order', 'C'),
          'container=' + case.get('container', 'list'), 'scale=%g' % case.get('scale', 1.0)]
    return t


def valid_indices(case):
    n = len(case['flux'])
    return all(0 <= s < n for s in case['sources'] + case['sinks'])


def check_top_path(ctx, case, mresp):
    real, mutated = call_real(case, 'top_path')
    real = canon_real(real)
    F, S, T = case['flux'], case['sources'], case['sinks']
    nontrivial = 'ok' in real and isinstance(real['ok']['flux'], int)
    ctx.case(case, nontrivial=nontrivial, tags=tags_of(case) + ['what=top_path'])
    if mutated:
        ctx.violation('top_path modified its arguments', case)
        return
    if 'error' in real:
        ctx.tag('real-error=' + real['error'])
        if valid_indices(case) and len(T) > 0:
            ctx.violation('top_path raised %s on valid input' % real['error'], case)
            return
    elif 'ok' in real:
        p, f = real['ok']['path'], real['ok']['flux']
        opt = best_bottleneck(F, S, T, prune=len(F) > 7)
        if isinstance(f, int):
            ctx.tag('top_path=found')
            e = check_sequence(F, S, T, 'subtract', [p], [f])
            if e:
                ctx.violation('top_path: ' + e, case)
                return
        elif f == '-inf':
            ctx.tag('top_path=none')
            if opt > 0 and not (set(S) & set(T)):
                ctx.violation('top_path reports no path although a source-to-sink path of bottleneck %r exists'
                              % opt, case)
                return
        elif f == 'inf':
            ctx.tag('top_path=source-is-sink')
            if not (set(S) & set(T)):
                ctx.violation('top_path reports infinite flux although no source is a sink', case)
                return
        else:
            ctx.violation('top_path returned a non-integral flux %r on an integer matrix' % (f,), case)
            return
    if mresp != real:
        ctx.disagreement('Ens.Paths.topPath vs tpt.top_path', dict(case, model=mresp, impl=real))


def explained_tie(case, seqs):
    """is some exact explained fraction within 1e-12 of the cut-off?"""
    c = case['cutoff'] if case['cutoff'] is not None else DEFAULT_CUTOFF
    S = case['sources']
    tot = sum(sum(case['flux'][s]) for s in S)       # with multiplicity, as the code sums
    if tot == 0:
        return False
    cF = Fraction(c)
    for seq in seqs:
        acc = Fraction(0)
        for r in seq:
            if not isinstance(r['flux'], int):
                continue
            acc += Fraction(r['flux'], tot)
            if abs(acc - cF) < Fraction(1, 10 ** 12):
                return True
    return False


def check_paths(ctx, case, mresp, second=None):
    """second: callable giving model responses for other cut-offs (tie handling)"""
    real, mutated = call_real(case, 'paths')
    real = canon_real(real)
    F, S, T = case['flux'], case['sources'], case['sinks']
    scheme, num_paths = case['scheme'], case['num_paths']
    cutoff = case['cutoff'] if case['cutoff'] is not None else DEFAULT_CUTOFF
    npaths = len(real['ok']) if 'ok' in real else 0
    ctx.case(case, nontrivial=npaths > 0, tags=tags_of(case) + ['what=paths', 'returned=%s' % (
        npaths if npaths < 6 else '6+')])
    if mutated:
        ctx.violation("paths modified the caller's flux matrix / source / sink arguments", case)
        return
    if 'shape-error' in real:
        ctx.violation('paths: ' + real['shape-error'], case)
        return
    if 'error' in real:
        ctx.tag('real-error=' + real['error'])
        if valid_indices(case) and len(T) > 0:
            ctx.violation('paths raised %s on valid input' % real['error'], case)
            return
    else:
        ps = [r['path'] for r in real['ok']]
        fs = [r['flux'] for r in real['ok']]
        if any(not isinstance(f, int) for f in fs):
            ctx.violation('paths returned a non-integral / infinite flux %r on an integer matrix' % (fs,), case)
            return
        e = check_sequence(F, S, T, scheme, ps, fs)
        if e:
            ctx.violation('paths(%s): %s' % (scheme, e), case)
            return
        if any(fs[i] < fs[i + 1] for i in range(len(fs) - 1)):
            ctx.violation('paths(%s): pathway fluxes increase: %s' % (scheme, fs), case)
            return
        outflow = sum(sum(F[s]) for s in set(S))
        if num_paths is not None and len(ps) > num_paths:
            ctx.violation('paths returned %d paths although num_paths=%d' % (len(ps), num_paths), case)
            return
        if sum(fs) > outflow:
            # every path is individually valid here; with the bottleneck scheme the excess is
            # carried by a source out-edge used by several paths beyond its capacity
            over = {}
            for p, f in zip(ps, fs):
                over[(p[0], p[1])] = over.get((p[0], p[1]), 0) + f
            shared = any(v > F[a][b] for (a, b), v in over.items())
            key = KEY_BOTTLENECK if (scheme == 'bottleneck' and shared) else None
            ctx.violation('paths(%s): sum of pathway fluxes %d exceeds the total outflow of the sources %d'
                          % (scheme, sum(fs), outflow), case, key=key)
            if key is None:
                return
        limited = num_paths is not None and len(ps) >= num_paths
        if case['kind'] == 'conserved' and not limited and len(set(S)) == len(S) and outflow > 0:
            want = min(Fraction(cutoff), Fraction(1))
            if Fraction(sum(fs), outflow) < want - Fraction(1, 10 ** 9):
                ctx.violation('paths(%s): conserved flow, explained fraction %s below the requested %r '
                              'without hitting num_paths' % (scheme, Fraction(sum(fs), outflow), cutoff), case)
                return
            ctx.tag('fraction-reached')
    # model vs implementation
    if mresp == real:
        return
    if 'ok' in real and 'ok' in mresp and explained_tie(case, [real['ok'], mresp['ok']]) and second:
        alts = second(case)
        if real in alts:
            ctx.tag('cutoff-tie')
            ctx.skip('explained fraction within 1e-12 of flux_cutoff (float rounding decides)')
            return
    ctx.disagreement('Ens.Paths.paths vs tpt.paths', dict(case, model=mresp, impl=real))


# ----------------------------------------------------------------------------- generators

def pick_st(rng, n, allow_overlap=False):
    nodes = [int(x) for x in rng.permutation(n)]
    ns = int(rng.integers(1, min(3, max(1, n - 1)) + 1))
    nt = int(rng.integers(1, min(3, max(1, n - ns)) + 1))
    S, T = nodes[:ns], nodes[ns:ns + nt]
    if not T:
        T = [nodes[0]]
    if allow_overlap and rng.random() < 0.5:
        T = T + [S[0]]
    return S, T


def gen_conserved(rng, nmax=9, weight=None):
    n = int(rng.integers(2, nmax + 1))
    S, T = pick_st(rng, n)
    order = [int(x) for x in rng.permutation(n)]
    pos = {v: i for i, v in enumerate(order)}
    F = [[0] * n for _ in range(n)]
    wmax = int(rng.choice([1, 2, 3, 6, 20]))
    for _ in range(int(rng.integers(1, 12))):
        s, t = int(rng.choice(S)), int(rng.choice(T))
        if pos[s] > pos[t]:
            continue
        mids = [v for v in order if pos[s] < pos[v] < pos[t] and v not in S and v not in T]
        dens = rng.random()
        p = [s] + [v for v in mids if rng.random() < dens] + [t]
        w = int(rng.integers(1, wmax + 1)) if weight is None else weight()
        for a, b in zip(p[:-1], p[1:]):
            F[a][b] += w
    return {'kind': 'conserved', 'flux': F, 'sources': S, 'sinks': T}


def gen_digraph(rng, nmin=5, nmax=9, weight=None):
    n = int(rng.integers(nmin, nmax + 1))
    S, T = pick_st(rng, n)
    dens = float(rng.choice([0.15, 0.3, 0.5, 0.8]))
    wmax = int(rng.choice([1, 2, 3, 9, 50]))
    selfloop = rng.random() < 0.2
    F = [[0] * n for _ in range(n)]
    for i in range(n):
        for j in range(n):
            if (i != j or selfloop) and rng.random() < dens:
                F[i][j] = int(rng.integers(1, wmax + 1)) if weight is None else weight()
    return {'kind': 'digraph', 'flux': F, 'sources': S, 'sinks': T}


def gen_neartie(rng):
    """near ties: large integer fluxes B ~ 1e6..1e7 next to B+1, B+2, 1, 2 (relative gaps 1e-6..1e-7,
    all exact in float64) on shapes where several pathways share edges"""
    B = int(rng.choice([10 ** 6, 3 * 10 ** 6, 10 ** 7])) + int(rng.integers(0, 3))
    k = int(rng.integers(0, 5))
    if k == 0:      # diamond with a shared prefix: s->a, a->b1->t, a->b2->t, the prefix almost tied
        d1, d2 = int(rng.integers(1, 3)), int(rng.integers(1, 3))
        F = [[0] * 5 for _ in range(5)]
        F[0][1] = 2 * B + d1 + d2
        F[1][2], F[2][4] = B + d1, B + d1
        F[1][3], F[3][4] = B + d2, B + d2
        base = {'kind': 'conserved', 'flux': F, 'sources': [0], 'sinks': [4]}
    elif k == 1:    # two pathways share a prefix whose edges exceed the first bottleneck by 1 or 2
        d = int(rng.integers(1, 3))
        F = [[0] * 6 for _ in range(6)]
        F[0][1], F[1][2] = B + d, B + d
        F[2][5] = B
        F[2][3], F[3][5] = d, d
        base = {'kind': 'conserved', 'flux': F, 'sources': [0], 'sinks': [5]}
    elif k == 2:    # ladder: rails s->a1->a2->t and s->b1->b2->t with rungs, near-tied rails
        d = int(rng.integers(1, 3))
        F = [[0] * 6 for _ in range(6)]          # 0=s 1=a1 2=a2 3=b1 4=b2 5=t
        F[0][1], F[1][2], F[2][5] = B + d, B, B + d
        F[1][4] = d
        F[0][3], F[3][4], F[4][5] = B, B, B
        F[4][2] = d
        base = {'kind': 'conserved', 'flux': F, 'sources': [0], 'sinks': [5]}
    elif k == 3:
        base = gen_conserved(rng, weight=lambda: B if rng.random() < 0.5 else int(rng.integers(1, 3)))
    else:
        base = gen_digraph(rng, 4, 8, weight=lambda: B + int(rng.integers(0, 3)))
    return base


def gen_degenerate(rng):
    k = int(rng.integers(0, 7))
    n = int(rng.integers(1, 5))
    F = [[int(rng.integers(0, 4)) for _ in range(n)] for _ in range(n)]
    S, T = pick_st(rng, n, allow_overlap=(k == 0))
    if k == 1:
        S = []
    elif k == 2:
        T = []
    elif k == 3:
        S = S + [n + int(rng.integers(0, 2))]
    elif k == 4:
        T = T + [n]
    elif k == 5:
        S = S + [S[0]]                       # repeated source
    elif k == 6:
        F = [[0] * n for _ in range(n)]      # no edges at all
    return {'kind': 'degenerate', 'flux': F, 'sources': S, 'sinks': T}


# powers of two only: the scaled matrix, its minima and differences stay exact in binary floating point
SCALES = [1.0, 1.0, 0.5, 0.125, 2.0 ** -20, 2.0 ** -30, 2.0 ** -34, 2.0 ** -40, 4.0, 2.0 ** 20]
NUM_PATHS = [None, None, None, 1, 2, 3, 5, 0]
CUTOFFS = [None, None, None, 0.0, 0.25, 0.37, 0.5, 0.9, 1.0, 2.0]


def settings(rng, base, dtype=None):
    """the paths() calls made for one graph"""
    out = []
    variant = {'dtype': dtype or str(rng.choice(['float64', 'float64', 'float32'])),
               'order': str(rng.choice(['C', 'C', 'F'])),
               'container': str(rng.choice(['list', 'array', 'tuple'])),
               'scale': float(rng.choice(SCALES))}
    for scheme in ('subtract', 'bottleneck'):
        # run to exhaustion
        out.append(dict(base, what='paths', scheme=scheme, num_paths=None,
                        cutoff=[None, 2.0, 1.0][int(rng.integers(0, 3))], **variant))
        out.append(dict(base, what='paths', scheme=scheme,
                        num_paths=NUM_PATHS[int(rng.integers(0, len(NUM_PATHS)))],
                        cutoff=CUTOFFS[int(rng.integers(0, len(CUTOFFS)))], **variant))
    out.append(dict(base, what='top_path', **variant))
    return out


# ----------------------------------------------------------------------------- entry points

def tie_alternatives(ctx):
    def second(case):
        c = case['cutoff'] if case['cutoff'] is not None else DEFAULT_CUTOFF
        rs = ctx.driver([model_req(case, 'paths', cutoff=c - 1e-8), model_req(case, 'paths', cutoff=c + 1e-8)])
        return rs
    return second


def run_cases(ctx, cases):
    resp = ctx.driver([model_req(c, c['what']) for c in cases])
    second = tie_alternatives(ctx)
    for c, r in zip(cases, resp):
        if c['what'] == 'top_path':
            check_top_path(ctx, c, r)
        else:
            check_paths(ctx, c, r, second)


FIXED = [
    # F16 witness: s->a 10, a->b1->t 6, a->b2->t 6
    {'kind': 'digraph', 'flux': [[0, 10, 0, 0, 0], [0, 0, 6, 6, 0], [0, 0, 0, 0, 6], [0, 0, 0, 0, 6], [0, 0, 0, 0, 0]],
     'sources': [0], 'sinks': [4]},
    # upstream test_paths graph (weights x10)
    {'kind': 'conserved', 'flux': [[0, 5, 5, 0, 0, 0], [0, 0, 0, 3, 0, 2], [0, 0, 0, 0, 5, 0], [0, 0, 0, 0, 0, 3],
                                   [0, 0, 0, 0, 0, 0], [0, 0, 0, 0, 0, 0]], 'sources': [0], 'sinks': [4, 5]},
    # a sink that is an interior node of the path to the listed-first sink
    {'kind': 'digraph', 'flux': [[0, 10, 0], [0, 0, 10], [0, 0, 0]], 'sources': [0], 'sinks': [2, 1]},
    # conserved flow on which the bottleneck scheme over-explains (22 > 21)
    {'kind': 'conserved', 'sources': [7], 'sinks': [2, 8],
     'flux': [[0] * 9, [0] * 9, [0] * 9, [0, 0, 1, 0, 0, 3, 0, 0, 7], [0, 0, 0, 6, 0, 0, 0, 0, 2],
              [0, 0, 5, 0, 0, 0, 0, 0, 6], [0] * 9, [0, 0, 0, 5, 8, 8, 0, 0, 0], [0] * 9]},
]


def run(ctx):
    rng = ctx.rng
    cases = []
    for base in FIXED:
        for scheme in ('subtract', 'bottleneck'):
            for npth in (None, 1, 2):
                cases.append(dict(base, what='paths', scheme=scheme, num_paths=npth, cutoff=None))
        cases.append(dict(base, what='top_path'))
    ng = ctx.n(1500, 20000)
    for g in range(ng):
        r = rng.random()
        if r < 0.40:
            base = gen_conserved(rng)
        elif r < 0.85:
            base = gen_digraph(rng) if rng.random() < 0.8 else gen_digraph(rng, 1, 4)
        else:
            base = gen_degenerate(rng)
        cases += settings(rng, base)
    nt = ctx.n(300, 4000)
    for g in range(nt):
        cases += settings(rng, gen_neartie(rng), dtype='float64')
    # the F16 diamond and the upstream graph at MSM-like magnitudes (1e-9 .. 1e-12)
    for base in FIXED[:2]:
        for sc in (2.0 ** -30, 2.0 ** -40):
            for scheme in ('subtract', 'bottleneck'):
                cases.append(dict(base, what='paths', scheme=scheme, num_paths=None, cutoff=None, scale=sc))
    run_cases(ctx, cases)
    ctx.note('graphs', ng + nt + len(FIXED))


def replay(ctx, data):
    case = {k: v for k, v in data.items() if k not in ('model', 'impl')}
    r = ctx.driver([model_req(case, case['what'])])[0]
    if case['what'] == 'top_path':
        check_top_path(ctx, case, r)
    else:
        check_paths(ctx, case, r, tie_alternatives(ctx))
