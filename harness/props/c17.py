"""C17 - pathways are real, bottleneck-optimal and never over-explain the flux.

Real `enspara.tpt.paths` / `enspara.tpt.top_path` against the Lean model `Ens.Paths`
(`C17.paths`, `C17.top_path` driver ops) and against the property's own words, evaluated
with an independent oracle (exhaustive simple-path enumeration on the residual matrices).
"""
import itertools
from fractions import Fraction

import numpy as np

MIRRORS = [('enspara/tpt/path.py', None)]

RULE = ('random integer-weighted flux matrices, n = 1..9: (a) acyclic conserved flows built by '
        'superposing source->sink paths in a random topological order, (b) arbitrary weighted '
        'digraphs with cycles / self-loops / tie-heavy weights, (c) degenerate inputs (no path, '
        'empty or out-of-range source/sink lists, source that is also a sink, repeated sources); '
        '1..3 sources and sinks; both removal schemes; num_paths in {default inf, 0, 1, 2, 3, 5}; '
        'flux_cutoff in {default 1-1e-10, 0, .25, .37, .5, .9, 1.0, 2.0}; float64/float32, C/F order, '
        'matrix scaled by a power of two 2^-40..2^20 (exact in floating point: covers non-integer matrices and '
        'the 1e-9..1e-12 magnitudes of real MSM net fluxes); (d) near-tie family: fluxes B, B+1, B+2 with '
        'B ~ 1e6..1e7 (relative gap 1e-6..1e-7) on diamonds / shared prefixes / ladders / superposed flows; '
        'audit families: net_flux as float32/int64/int32/uint8, C/F/strided/reversed views; index arguments as '
        'list/int64/int32 array/tuple/Python or numpy scalar; num_paths as int/np.int64/np.int32/float/explicit inf; '
        'positional call; remove_path as a callable (own pure, own in-place, the module helper); the same argument '
        'objects passed twice; residuals of the module helpers fed forward; degenerate structures (adjacent '
        'source/sink, disconnected sink, self-loops only, single state, all-equal weights, isolated states, '
        'pendant); wide dynamic range inside one matrix (entries m*2^-e, e up to 200: heavy dead end / diagonal / '
        'unreachable component / first edge / last edge, random per-edge exponents; model run on the integer '
        'matrix times the common power of two); totals 2^k with the cut-off reached exactly; 256/257/300-state chain, fan and layered DAG '
        '(oracle only); a case is non-trivial when at least one pathway is returned; distinct by canonical input')
ASSUMPTIONS = [
    'float64/float32 arithmetic (compare, min, subtract) on integers times a power of two is exact, so the '
    'Nat model and the real code must agree exactly on paths and (rescaled) fluxes',
    'the explained-flux comparison `expl_flux >= flux_cutoff` is done in floating point by the code and '
    'exactly by the model; cases whose exact explained fraction is within 1e-12 of the cut-off are '
    'compared against the model on both sides of the cut-off (tag cutoff-tie)',
    'dense ndarray input only, as documented by the code (scipy.sparse matrices/arrays make top_path raise '
    'ValueError inside np.where: not a supported container, not exercised)',
    'for graphs with more than 12 states the widest-path oracle is threshold reachability (largest w such '
    'that a sink is reachable through edges >= w), which equals the maximum over simple paths; the Lean model '
    'is not run on the 256..300-state family (tag model-skipped-large-n)',
    'np.matrix, list-of-lists matrices and sets of indices are not documented inputs: probed each run, they '
    'raise (tags container-probe:*), no predicate is evaluated on them',
    'the oracle for "largest bottleneck of all source-to-sink paths" enumerates simple paths depth-first '
    'and only prunes branches whose running minimum cannot exceed the best found so far',
]
TRUSTED_EXTRA = ['Python oracle in harness/props/c17.py (simple-path enumeration, residual bookkeeping)']

KEY_BOTTLENECK = 'bottleneck-scheme-shared-edge-overuse'

DEFAULT_CUTOFF = 1 - 1E-10


# ----------------------------------------------------------------------------- oracle

def best_bottleneck(R, S, T, prune=True):
    """max over all simple paths source->sink (length >= 1 edge) of the min edge weight; 0 if none.
    Exhaustive depth-first enumeration (with safe pruning)."""
    n = len(R)
    if n > 12:
        return best_bottleneck_threshold(R, S, T)
    Tset = set(T)
    best = 0
    adj = [[j for j in range(n) if R[i][j] > 0 and j != i] for i in range(n)]

    def dfs(u, cur, seen):
        nonlocal best
        for v in adj[u]:
            if v in seen:
                continue
            c = min(cur, R[u][v])
            if prune and c <= best:
                continue
            if v in Tset:
                if c > best:
                    best = c
            seen.add(v)
            dfs(v, c, seen)
            seen.discard(v)

    for s in set(S):
        dfs(s, float('inf'), {s})
    return best


def best_bottleneck_threshold(R, S, T):
    """large graphs (n > 12), where enumerating simple paths is infeasible: the largest w such that a
    sink other than the start is reachable from a source through edges of weight >= w (equal to the
    maximum over simple paths of the minimum edge; independent of the Dijkstra-style search)"""
    n = len(R)
    Tset = set(T)
    adj = [[(j, R[i][j]) for j in range(n) if R[i][j] > 0 and j != i] for i in range(n)]
    for w in sorted({x for row in adj for _, x in row}, reverse=True):
        for s in set(S):
            seen, stack = {s}, [s]
            while stack:
                u = stack.pop()
                for v, x in adj[u]:
                    if x >= w and v not in seen:
                        if v in Tset:
                            return w
                        seen.add(v)
                        stack.append(v)
    return 0


def check_sequence(F, S, T, scheme, paths, fluxes, exhausted=False):
    """Evaluate the per-path clauses on the residual matrices kept by this oracle.
    Returns None when all clauses hold (for some admissible choice among tied bottleneck edges),
    else a description of the first failing clause."""
    n = len(F)
    Sset, Tset = set(S), set(T)

    def leftover(R):
        opt = best_bottleneck(R, S, T)
        if opt > 0:
            return ('the search stopped without reaching num_paths or flux_cutoff although the residual '
                    'matrix still has a source-to-sink path (bottleneck %r)' % (opt,))
        return None

    def rec(i, R):
        if i == len(paths):
            return leftover(R) if exhausted else None
        p, f = paths[i], fluxes[i]
        if len(p) < 2:
            return 'path %d has fewer than two nodes: %s' % (i, p)
        if any((not isinstance(v, int)) or v < 0 or v >= n for v in p):
            return 'path %d leaves the state range: %s' % (i, p)
        if len(set(p)) != len(p):
            return 'path %d is not simple: %s' % (i, p)
        if p[0] not in Sset:
            return 'path %d does not start in a source: %s' % (i, p)
        if p[-1] not in Tset:
            return 'path %d does not end in a sink: %s' % (i, p)
        ws = [R[a][b] for a, b in zip(p[:-1], p[1:])]
        if min(ws) <= 0:
            return 'path %d uses an edge without positive residual flux: %s weights %s' % (i, p, ws)
        if f != min(ws):
            return 'path %d: reported flux %r != smallest residual flux on its edges %r' % (i, f, min(ws))
        opt = best_bottleneck(R, S, T)
        if f != opt:
            return ('path %d: bottleneck %r is not the largest over all source-to-sink paths of the '
                    'residual matrix (%r)' % (i, f, opt))
        if i + 1 == len(paths) and not exhausted:
            return None
        if scheme == 'subtract':
            R2 = [row[:] for row in R]
            for a, b in zip(p[:-1], p[1:]):
                R2[a][b] -= f
            return rec(i + 1, R2)
        err = None
        for k, w in enumerate(ws):          # tied bottleneck edges: first choice first
            if w == f:
                R2 = [row[:] for row in R]
                R2[p[k]][p[k + 1]] = 0
                e = rec(i + 1, R2)
                if e is None:
                    return None
                err = err or e
        return err

    return rec(0, [list(r) for r in F])


# ----------------------------------------------------------------------------- real code

INT_DTYPES = ('int64', 'int32', 'uint8')


def build_matrix(case):
    dtype = case.get('dtype', 'float64')
    order = case.get('order', 'C')
    scale = case.get('scale', 1.0)          # a power of two: scaling is exact in floating point
    A = np.array(case['flux'], dtype='float64')
    n = len(case['flux'])
    if A.ndim != 2:
        A = A.reshape((n, n))
    A = A * scale
    if order == 'strided':                  # non-contiguous view into a larger buffer
        big = np.full((2 * n, 2 * n), 7, dtype=dtype)
        big[::2, ::2] = A.astype(dtype)
        return big[::2, ::2]
    if order == 'reversed':                 # negative strides
        return np.ascontiguousarray(A[::-1, ::-1]).astype(dtype)[::-1, ::-1]
    return np.array(A, dtype=dtype, order=order)


def conv_index(kind, xs):
    if kind == 'array':
        return np.array(xs, dtype=int)
    if kind == 'int32':
        return np.array(xs, dtype=np.int32)
    if kind == 'tuple':
        return tuple(xs)
    if kind == 'scalar' and len(xs) == 1:
        return int(xs[0])
    if kind == 'npscalar' and len(xs) == 1:
        return np.int64(xs[0])
    return list(xs)


def index_snapshot(x):
    return [int(v) for v in np.array(x, dtype=int).reshape(-1)]


def own_remover(scheme, inplace):
    """remove_path callables written here (not the module's): the two documented schemes"""
    def rem(net_flux, path):
        M = net_flux if inplace else np.array(net_flux, copy=True)
        vals = M[path[:-1], path[1:]]
        k = int(np.argmin(vals))
        if scheme == 'subtract':
            M[path[:-1], path[1:]] = vals - vals.min()
        M[path[k], path[k + 1]] = 0
        return M
    return rem


def helper_chain(case, S, T, F):
    """class 5: feed every residual returned by the module's own removal helper into the next
    top_path call (what paths() does), checking that a helper neither changes nor aliases its input"""
    from enspara import tpt
    from enspara.tpt import path as P
    helper = P._subtract_path_flux if case['scheme'] == 'subtract' else P._remove_bottleneck
    ps, fs, alias = [], [], None
    M = F
    for _ in range(len(case['flux']) ** 2 + 2):
        p, f = tpt.top_path(S, T, M)
        if np.isinf(f):
            break
        ps.append(p)
        fs.append(f)
        snap = M.tobytes()
        M2 = helper(M, p)
        if M.tobytes() != snap:
            alias = 'removal helper modified the matrix it was given'
        elif np.shares_memory(M2, M):
            alias = 'removal helper returned a matrix aliasing its argument'
        M = M2
    return ps, np.array(fs, dtype=float), alias


class RealCodeTimeout(Exception):
    pass


def _on_vtalrm(signum, frame):
    raise RealCodeTimeout()


CPU_LIMIT_S = 20        # CPU seconds for one real call (the slowest legitimate case needs < 5 s)


def call_real(case, what):
    """returns (result dict, mutated flag); a call that burns more than CPU_LIMIT_S of CPU time (a
    back-pointer walk that never ends, say) is reported instead of hanging the check"""
    import signal
    old = signal.signal(signal.SIGVTALRM, _on_vtalrm)
    signal.setitimer(signal.ITIMER_VIRTUAL, CPU_LIMIT_S)
    try:
        return _call_real(case, what)
    except RealCodeTimeout:
        return {'timeout': True}, False
    finally:
        signal.setitimer(signal.ITIMER_VIRTUAL, 0)
        signal.signal(signal.SIGVTALRM, old)


def _call_real(case, what):
    from enspara import tpt
    F = build_matrix(case)
    scale = case.get('scale', 1.0)
    cont = case.get('container', 'list')
    S, T = conv_index(cont, case['sources']), conv_index(cont, case['sinks'])
    snapF = F.tobytes()
    snapS, snapT = list(case['sources']), list(case['sinks'])
    extra = None
    try:
        with np.errstate(all='ignore'):
            if what == 'top_path':
                p, f = tpt.top_path(S, T, F)
                f = float(f) / scale
                res = {'ok': {'path': [int(x) for x in p],
                              'flux': 'inf' if f == float('inf') else '-inf' if f == float('-inf') else f}}
            elif case.get('via') == 'helpers':
                ps, fs, extra = helper_chain(case, S, T, F)
                res = {'ok': [{'path': [int(x) for x in p], 'flux': float(f) / scale} for p, f in zip(ps, fs)]}
            else:
                cal = case.get('callable')
                if cal == 'own':
                    rp = own_remover(case['scheme'], False)
                elif cal == 'inplace':
                    rp = own_remover(case['scheme'], True)
                elif cal == 'module':
                    from enspara.tpt import path as P
                    rp = P._subtract_path_flux if case['scheme'] == 'subtract' else P._remove_bottleneck
                else:
                    rp = case['scheme']
                npk = case.get('np_kind', 'py')
                npv = case['num_paths']
                if npv is not None:
                    npv = {'py': int, 'npint': np.int64, 'npint32': np.int32, 'float': float}[npk](npv)
                elif npk == 'inf-explicit':
                    npv = float('inf')
                if case.get('positional'):
                    args = [rp, np.inf if npv is None else npv]
                    if case['cutoff'] is not None:
                        args.append(case['cutoff'])
                    call = lambda: tpt.paths(S, T, F, *args)       # noqa: E731
                else:
                    kw = {'remove_path': rp}
                    if npv is not None:
                        kw['num_paths'] = npv
                    if case['cutoff'] is not None:
                        kw['flux_cutoff'] = case['cutoff']
                    call = lambda: tpt.paths(S, T, F, **kw)        # noqa: E731
                ps, fs = call()
                if not isinstance(fs, np.ndarray) or fs.ndim != 1 or len(fs) != len(ps):
                    res = {'shape-error': 'fluxes %r for %d paths' % (fs, len(ps))}
                else:
                    res = {'ok': [{'path': [int(x) for x in p], 'flux': float(f) / scale}
                                  for p, f in zip(ps, fs)]}
                    if case.get('twice'):
                        # same argument objects again: nothing may have been carried over
                        ps2, fs2 = call()
                        res2 = [{'path': [int(x) for x in p], 'flux': float(f) / scale} for p, f in zip(ps2, fs2)]
                        if res2 != res['ok']:
                            extra = 'a second call with the same argument objects returned %r, the first %r' % (
                                res2, res['ok'])
    except RealCodeTimeout:
        raise
    except IndexError:
        res = {'error': 'index-error'}
    except ValueError:
        res = {'error': 'value-error'}
    except Exception as e:  # noqa
        res = {'error': type(e).__name__}
    mutated = (F.tobytes() != snapF or index_snapshot(S) != snapS or index_snapshot(T) != snapT)
    if extra:
        res['extra'] = extra
    return res, mutated


def frac(x):
    f = Fraction(x)
    return [f.numerator, f.denominator]


def model_req(case, what, cutoff=None):
    rq = {'op': 'C17.' + what, 'flux': case['flux'], 'sources': case['sources'], 'sinks': case['sinks']}
    if what == 'paths':
        rq['scheme'] = case['scheme']
        rq['num_paths'] = case['num_paths']
        c = cutoff if cutoff is not None else (case['cutoff'] if case['cutoff'] is not None else DEFAULT_CUTOFF)
        rq['cutoff'] = frac(c)
    return rq


def canon_real(res):
    """integer-valued floats -> ints, so that the comparison with the Nat model is exact"""
    if 'ok' not in res:
        return {k: v for k, v in res.items() if k != 'extra'}
    def cf(f):
        if isinstance(f, float) and f == int(f):
            return int(f)
        return f
    if isinstance(res['ok'], dict):
        return {'ok': {'path': res['ok']['path'], 'flux': cf(res['ok']['flux'])}}
    return {'ok': [{'path': r['path'], 'flux': cf(r['flux'])} for r in res['ok']]}


# ----------------------------------------------------------------------------- checks

def tags_of(case):
    t = ['kind=' + case['kind'], 'n=%d' % len(case['flux']),
         'nsrc=%d' % len(case['sources']), 'nsink=%d' % len(case['sinks'])]
    if case['what'] == 'paths':
        t += ['scheme=' + case['scheme'],
              'num_paths=' + ('default' if case['num_paths'] is None else str(case['num_paths'])),
              'cutoff=' + ('default' if case['cutoff'] is None else repr(case['cutoff']))]
    t += ['dtype=' + case.get('dtype', 'float64'), 'order=' + case.get('order', 'C'),
          'container=' + case.get('container', 'list'), 'scale=%g' % case.get('scale', 1.0)]
    for k in ('np_kind', 'callable', 'via', 'family'):
        if case.get(k):
            t.append('%s=%s' % (k, case[k]))
    for k in ('positional', 'twice', 'nomodel'):
        if case.get(k):
            t.append(k if k != 'nomodel' else 'model-skipped-large-n')
    return t


def valid_indices(case):
    n = len(case['flux'])
    return all(0 <= s < n for s in case['sources'] + case['sinks'])


def check_top_path(ctx, case, mresp):
    real, mutated = call_real(case, 'top_path')
    real = canon_real(real)
    F, S, T = case['flux'], case['sources'], case['sinks']
    nontrivial = 'ok' in real and isinstance(real['ok']['flux'], int)
    ctx.case(case, nontrivial=nontrivial, tags=tags_of(case) + ['what=top_path'])
    if real.get('timeout'):
        ctx.violation('top_path did not return within %d s of CPU time' % CPU_LIMIT_S, case)
        return
    if mutated:
        ctx.violation('top_path modified its arguments', case)
        return
    if 'error' in real:
        ctx.tag('real-error=' + real['error'])
        if valid_indices(case) and len(T) > 0:
            ctx.violation('top_path raised %s on valid input' % real['error'], case)
            return
    elif 'ok' in real:
        p, f = real['ok']['path'], real['ok']['flux']
        opt = best_bottleneck(F, S, T, prune=len(F) > 7)
        if isinstance(f, int):
            ctx.tag('top_path=found')
            e = check_sequence(F, S, T, 'subtract', [p], [f])
            if e:
                ctx.violation('top_path: ' + e, case)
                return
        elif f == '-inf':
            ctx.tag('top_path=none')
            if opt > 0 and not (set(S) & set(T)):
                ctx.violation('top_path reports no path although a source-to-sink path of bottleneck %r exists'
                              % opt, case)
                return
        elif f == 'inf':
            ctx.tag('top_path=source-is-sink')
            if not (set(S) & set(T)):
                ctx.violation('top_path reports infinite flux although no source is a sink', case)
                return
        else:
            ctx.violation('top_path returned a non-integral flux %r on an integer matrix' % (f,), case)
            return
    if mresp is not None and mresp != real:
        ctx.disagreement('Ens.Paths.topPath vs tpt.top_path', dict(case, model=mresp, impl=real))


def explained_tie(case, seqs):
    """is some exact explained fraction within 1e-12 of the cut-off?"""
    c = case['cutoff'] if case['cutoff'] is not None else DEFAULT_CUTOFF
    S = case['sources']
    tot = sum(sum(case['flux'][s]) for s in S)       # with multiplicity, as the code sums
    if tot == 0 or (tot & (tot - 1)) == 0:
        return False                      # flux / 2^k and its partial sums are exact in floating point
    cF = Fraction(c)
    for seq in seqs:
        acc = Fraction(0)
        for r in seq:
            if not isinstance(r['flux'], int):
                continue
            acc += Fraction(r['flux'], tot)
            if abs(acc - cF) < Fraction(1, 10 ** 12):
                return True
    return False


def check_paths(ctx, case, mresp, second=None):
    """second: callable giving model responses for other cut-offs (tie handling)"""
    real, mutated = call_real(case, 'paths')
    extra = real.get('extra')
    real = canon_real(real)
    F, S, T = case['flux'], case['sources'], case['sinks']
    scheme, num_paths = case['scheme'], case['num_paths']
    cutoff = case['cutoff'] if case['cutoff'] is not None else DEFAULT_CUTOFF
    npaths = len(real['ok']) if 'ok' in real else 0
    ctx.case(case, nontrivial=npaths > 0, tags=tags_of(case) + ['what=paths', 'returned=%s' % (
        npaths if npaths < 6 else '6+')])
    if mutated:
        ctx.violation("paths modified the caller's flux matrix / source / sink arguments", case)
        return
    if real.get('timeout'):
        ctx.violation('paths did not return within %d s of CPU time' % CPU_LIMIT_S, case)
        return
    if extra:
        ctx.violation('paths: ' + extra, case)
        return
    if 'shape-error' in real:
        ctx.violation('paths: ' + real['shape-error'], case)
        return
    if 'error' in real:
        ctx.tag('real-error=' + real['error'])
        if valid_indices(case) and len(T) > 0:
            ctx.violation('paths raised %s on valid input' % real['error'], case)
            return
    else:
        ps = [r['path'] for r in real['ok']]
        fs = [r['flux'] for r in real['ok']]
        if any(not isinstance(f, int) for f in fs):
            ctx.violation('paths returned a non-integral / infinite flux %r on an integer matrix' % (fs,), case)
            return
        # did the loop end for lack of paths (neither limit hit)?  then none may be left
        tot_m = sum(sum(F[s]) for s in S)
        hit_count = num_paths is not None and len(ps) >= num_paths
        hit_cut = tot_m > 0 and Fraction(sum(fs), tot_m) >= Fraction(cutoff) - Fraction(1, 10 ** 9)
        exhausted = not hit_count and not hit_cut and not (set(S) & set(T))
        if exhausted:
            ctx.tag('ran-out-of-paths')
        e = check_sequence(F, S, T, scheme, ps, fs, exhausted=exhausted)
        if e:
            ctx.violation('paths(%s): %s' % (scheme, e), case)
            return
        if any(fs[i] < fs[i + 1] for i in range(len(fs) - 1)):
            ctx.violation('paths(%s): pathway fluxes increase: %s' % (scheme, fs), case)
            return
        outflow = sum(sum(F[s]) for s in set(S))
        if num_paths is not None and len(ps) > num_paths:
            ctx.violation('paths returned %d paths although num_paths=%d' % (len(ps), num_paths), case)
            return
        if sum(fs) > outflow:
            # every path is individually valid here; with the bottleneck scheme the excess is
            # carried by a source out-edge used by several paths beyond its capacity
            over = {}
            for p, f in zip(ps, fs):
                over[(p[0], p[1])] = over.get((p[0], p[1]), 0) + f
            shared = any(v > F[a][b] for (a, b), v in over.items())
            key = KEY_BOTTLENECK if (scheme == 'bottleneck' and shared) else None
            ctx.violation('paths(%s): sum of pathway fluxes %d exceeds the total outflow of the sources %d'
                          % (scheme, sum(fs), outflow), case, key=key)
            if key is None:
                return
        limited = num_paths is not None and len(ps) >= num_paths
        if case['kind'] == 'conserved' and not limited and len(set(S)) == len(S) and outflow > 0:
            want = min(Fraction(cutoff), Fraction(1))
            if Fraction(sum(fs), outflow) < want - Fraction(1, 10 ** 9):
                ctx.violation('paths(%s): conserved flow, explained fraction %s below the requested %r '
                              'without hitting num_paths' % (scheme, Fraction(sum(fs), outflow), cutoff), case)
                return
            ctx.tag('fraction-reached')
    # model vs implementation
    if mresp is None or mresp == real:
        return
    if 'ok' in real and 'ok' in mresp and explained_tie(case, [real['ok'], mresp['ok']]) and second:
        alts = second(case)
        if real in alts:
            ctx.tag('cutoff-tie')
            ctx.skip('explained fraction within 1e-12 of flux_cutoff (float rounding decides)')
            return
    ctx.disagreement('Ens.Paths.paths vs tpt.paths', dict(case, model=mresp, impl=real))


# ----------------------------------------------------------------------------- generators

def pick_st(rng, n, allow_overlap=False):
    nodes = [int(x) for x in rng.permutation(n)]
    ns = int(rng.integers(1, min(3, max(1, n - 1)) + 1))
    nt = int(rng.integers(1, min(3, max(1, n - ns)) + 1))
    S, T = nodes[:ns], nodes[ns:ns + nt]
    if not T:
        T = [nodes[0]]
    if allow_overlap and rng.random() < 0.5:
        T = T + [S[0]]
    return S, T


def gen_conserved(rng, nmax=9, weight=None):
    n = int(rng.integers(2, nmax + 1))
    S, T = pick_st(rng, n)
    order = [int(x) for x in rng.permutation(n)]
    pos = {v: i for i, v in enumerate(order)}
    F = [[0] * n for _ in range(n)]
    wmax = int(rng.choice([1, 2, 3, 6, 20]))
    for _ in range(int(rng.integers(1, 12))):
        s, t = int(rng.choice(S)), int(rng.choice(T))
        if pos[s] > pos[t]:
            continue
        mids = [v for v in order if pos[s] < pos[v] < pos[t] and v not in S and v not in T]
        dens = rng.random()
        p = [s] + [v for v in mids if rng.random() < dens] + [t]
        w = int(rng.integers(1, wmax + 1)) if weight is None else weight()
        for a, b in zip(p[:-1], p[1:]):
            F[a][b] += w
    return {'kind': 'conserved', 'flux': F, 'sources': S, 'sinks': T}


def gen_digraph(rng, nmin=5, nmax=9, weight=None):
    n = int(rng.integers(nmin, nmax + 1))
    S, T = pick_st(rng, n)
    dens = float(rng.choice([0.15, 0.3, 0.5, 0.8]))
    wmax = int(rng.choice([1, 2, 3, 9, 50]))
    selfloop = rng.random() < 0.2
    F = [[0] * n for _ in range(n)]
    for i in range(n):
        for j in range(n):
            if (i != j or selfloop) and rng.random() < dens:
                F[i][j] = int(rng.integers(1, wmax + 1)) if weight is None else weight()
    return {'kind': 'digraph', 'flux': F, 'sources': S, 'sinks': T}


def gen_neartie(rng):
    """near ties: large integer fluxes B ~ 1e6..1e7 next to B+1, B+2, 1, 2 (relative gaps 1e-6..1e-7,
    all exact in float64) on shapes where several pathways share edges"""
    B = int(rng.choice([10 ** 6, 3 * 10 ** 6, 10 ** 7])) + int(rng.integers(0, 3))
    k = int(rng.integers(0, 5))
    if k == 0:      # diamond with a shared prefix: s->a, a->b1->t, a->b2->t, the prefix almost tied
        d1, d2 = int(rng.integers(1, 3)), int(rng.integers(1, 3))
        F = [[0] * 5 for _ in range(5)]
        F[0][1] = 2 * B + d1 + d2
        F[1][2], F[2][4] = B + d1, B + d1
        F[1][3], F[3][4] = B + d2, B + d2
        base = {'kind': 'conserved', 'flux': F, 'sources': [0], 'sinks': [4]}
    elif k == 1:    # two pathways share a prefix whose edges exceed the first bottleneck by 1 or 2
        d = int(rng.integers(1, 3))
        F = [[0] * 6 for _ in range(6)]
        F[0][1], F[1][2] = B + d, B + d
        F[2][5] = B
        F[2][3], F[3][5] = d, d
        base = {'kind': 'conserved', 'flux': F, 'sources': [0], 'sinks': [5]}
    elif k == 2:    # ladder: rails s->a1->a2->t and s->b1->b2->t with rungs, near-tied rails
        d = int(rng.integers(1, 3))
        F = [[0] * 6 for _ in range(6)]          # 0=s 1=a1 2=a2 3=b1 4=b2 5=t
        F[0][1], F[1][2], F[2][5] = B + d, B, B + d
        F[1][4] = d
        F[0][3], F[3][4], F[4][5] = B, B, B
        F[4][2] = d
        base = {'kind': 'conserved', 'flux': F, 'sources': [0], 'sinks': [5]}
    elif k == 3:
        base = gen_conserved(rng, weight=lambda: B if rng.random() < 0.5 else int(rng.integers(1, 3)))
    else:
        base = gen_digraph(rng, 4, 8, weight=lambda: B + int(rng.integers(0, 3)))
    return base


def gen_degenerate(rng):
    k = int(rng.integers(0, 7))
    n = int(rng.integers(1, 5))
    F = [[int(rng.integers(0, 4)) for _ in range(n)] for _ in range(n)]
    S, T = pick_st(rng, n, allow_overlap=(k == 0))
    if k == 1:
        S = []
    elif k == 2:
        T = []
    elif k == 3:
        S = S + [n + int(rng.integers(0, 2))]
    elif k == 4:
        T = T + [n]
    elif k == 5:
        S = S + [S[0]]                       # repeated source
    elif k == 6:
        F = [[0] * n for _ in range(n)]      # no edges at all
    return {'kind': 'degenerate', 'flux': F, 'sources': S, 'sinks': T}


# powers of two only: the scaled matrix, its minima and differences stay exact in binary floating point
SCALES = [1.0, 1.0, 0.5, 0.125, 2.0 ** -20, 2.0 ** -30, 2.0 ** -34, 2.0 ** -40, 4.0, 2.0 ** 20]
NUM_PATHS = [None, None, None, 1, 2, 3, 5, 0]
CUTOFFS = [None, None, None, 0.0, 0.25, 0.37, 0.5, 0.9, 1.0, 2.0]


def pick_variant(rng, base, dtype=None):
    """dtype / memory layout / index-container variety of every argument (audit class 2)"""
    dt = dtype or str(rng.choice(['float64', 'float64', 'float64', 'float32', 'int64', 'int32', 'uint8']))
    scale = float(rng.choice(SCALES))
    if dt in INT_DTYPES:
        scale = float(rng.choice([1.0, 1.0, 4.0, 2.0 ** 20]))
        mx = max([max(r) for r in base['flux']] or [0])
        if dt == 'uint8' and mx * scale > 255:
            scale = 1.0
            if mx > 255:
                dt = 'int64'
        if dt == 'int32' and mx * scale >= 2 ** 31:
            dt = 'int64'
    return {'dtype': dt,
            'order': str(rng.choice(['C', 'C', 'F', 'strided', 'reversed'])),
            'container': str(rng.choice(['list', 'array', 'tuple', 'int32', 'scalar', 'npscalar'])),
            'scale': scale}


def settings(rng, base, dtype=None):
    """the paths() / top_path() calls made for one graph"""
    out = []
    variant = pick_variant(rng, base, dtype)
    for scheme in ('subtract', 'bottleneck'):
        # run to exhaustion
        c = dict(base, what='paths', scheme=scheme, num_paths=None,
                 cutoff=[None, 2.0, 1.0][int(rng.integers(0, 3))], **variant)
        if rng.random() < 0.2:
            c['np_kind'] = 'inf-explicit'
        out.append(c)
        c = dict(base, what='paths', scheme=scheme,
                 num_paths=NUM_PATHS[int(rng.integers(0, len(NUM_PATHS)))],
                 cutoff=CUTOFFS[int(rng.integers(0, len(CUTOFFS)))], **variant)
        if c['num_paths'] is not None:
            c['np_kind'] = str(rng.choice(['py', 'py', 'npint', 'npint32', 'float']))
        out.append(c)
    # configuration / call-history corners on one of the calls (audit classes 5 and 6)
    r = rng.random()
    k = int(rng.integers(0, 4))
    if r < 0.15:
        out[k]['callable'] = str(rng.choice(['own', 'inplace', 'module']))
    elif r < 0.30:
        out[k]['twice'] = True
    elif r < 0.45:
        out[k]['positional'] = True
    elif r < 0.60:
        out.append(dict(base, what='paths', scheme=str(rng.choice(['subtract', 'bottleneck'])), num_paths=None,
                        cutoff=1e9, via='helpers', **variant))   # the helper chain has no cut-off
    out.append(dict(base, what='top_path', **variant))
    return out


def gen_structure(rng):
    """degenerate structures (audit class 4)"""
    k = int(rng.integers(0, 8))
    w = int(rng.integers(1, 9))
    if k == 0:      # source adjacent to sink, nothing else
        base = {'flux': [[0, w], [0, 0]], 'sources': [0], 'sinks': [1], 'kind': 'conserved'}
    elif k == 1:    # direct edge competing with a two-step route
        v = int(rng.integers(1, 9))
        base = {'flux': [[0, v, w], [0, 0, v], [0, 0, 0]], 'sources': [0], 'sinks': [2], 'kind': 'conserved'}
    elif k == 2:    # one of several sinks is disconnected (listed first or last)
        F = [[0, w, 0, 0], [0, 0, w, 0], [0, 0, 0, 0], [0, 0, 0, 0]]
        base = {'flux': F, 'sources': [0], 'sinks': [3, 2] if rng.random() < 0.5 else [2, 3], 'kind': 'conserved'}
    elif k == 3:    # self-loops only
        n = int(rng.integers(1, 5))
        F = [[w if i == j else 0 for j in range(n)] for i in range(n)]
        base = {'flux': F, 'sources': [0], 'sinks': [n - 1], 'kind': 'degenerate'}
    elif k == 4:    # a single state
        base = {'flux': [[int(rng.integers(0, 3))]], 'sources': [0], 'sinks': [0] if rng.random() < 0.7 else [],
                'kind': 'degenerate'}
    elif k == 5:    # all weights equal on a complete digraph: every comparison is a tie
        n = int(rng.integers(3, 7))
        F = [[w if i != j else 0 for j in range(n)] for i in range(n)]
        base = {'flux': F, 'sources': [0], 'sinks': [n - 1], 'kind': 'digraph'}
    elif k == 6:    # isolated states and zero rows around one chain
        n = 6
        F = [[0] * n for _ in range(n)]
        F[1][3], F[3][4] = w, w + 1
        base = {'flux': F, 'sources': [1, 0], 'sinks': [4, 5], 'kind': 'conserved'}
    else:           # pendant state: a dead end next to the only route
        F = [[0, w, w, 0], [0, 0, 0, 0], [0, 0, 0, w], [0, 0, 0, 0]]
        base = {'flux': F, 'sources': [0], 'sinks': [3], 'kind': 'digraph'}
    base['family'] = 'structure-%d' % k
    return base


def gen_exact_cutoff(rng):
    """total outflow a power of two, cut-off j / total: `expl_flux >= flux_cutoff` is reached EXACTLY
    (all the float arithmetic involved is exact), so the tie tolerance does not apply (audit class 6)"""
    tot = int(rng.choice([4, 8, 16, 32]))
    m = int(rng.integers(1, min(tot, 6) + 1))
    cuts = sorted(int(x) for x in rng.choice(np.arange(1, tot), size=m - 1, replace=False)) if m > 1 else []
    parts = [b - a for a, b in zip([0] + cuts, cuts + [tot])]
    it = iter(parts)
    base = None
    for _ in range(20):
        it = iter(parts)
        base = gen_conserved(rng, nmax=7, weight=lambda: next(it, 0))
        if sum(sum(base['flux'][s]) for s in base['sources']) == tot:
            break
    else:
        base = {'kind': 'conserved', 'flux': [[0, tot], [0, 0]], 'sources': [0], 'sinks': [1]}
    base['family'] = 'exact-cutoff'
    j = int(rng.integers(1, tot + 1))
    return base, j / tot


def gen_large(rng, thorough):
    """more than 255 states (audit class 1); the Lean model is not run on these (it takes minutes):
    oracle-only, with the threshold-reachability form of the widest-path oracle"""
    n = int(rng.choice([256, 257, 300]))
    k = int(rng.integers(0, 3))
    F = [[0] * n for _ in range(n)]
    order = [int(x) for x in rng.permutation(n)]
    if k == 0:      # one long chain through every state, plus shortcuts of smaller weight
        for a, b in zip(order[:-1], order[1:]):
            F[a][b] = int(rng.integers(5, 9))
        for i in range(0, n - 4, 11):
            F[order[i]][order[i + 3]] = int(rng.integers(1, 4))
        base = {'flux': F, 'sources': [order[0]], 'sinks': [order[-1]], 'kind': 'digraph', 'family': 'large-chain'}
        npaths = [None, 2]
    elif k == 1:    # one wide fan
        s, t = order[0], order[-1]
        for v in order[1:-1]:
            w = int(rng.integers(1, 50))
            F[s][v], F[v][t] = w, w
        base = {'flux': F, 'sources': [s], 'sinks': [t], 'kind': 'conserved', 'family': 'large-fan'}
        npaths = [3, 6] if not thorough else [3, 40]
    else:           # sparse layered DAG with several sources and sinks
        for i, a in enumerate(order[:-1]):
            for _ in range(int(rng.integers(1, 3))):
                b = order[int(rng.integers(i + 1, min(n, i + 12)))]
                F[a][b] = int(rng.integers(1, 30))
        base = {'flux': F, 'sources': order[:2], 'sinks': order[-2:], 'kind': 'digraph', 'family': 'large-dag'}
        npaths = [2, 5]
    out = []
    variant = {'dtype': str(rng.choice(['float64', 'float32', 'int64'])), 'order': 'C',
               'container': str(rng.choice(['list', 'array', 'int32'])), 'scale': 1.0}
    for scheme in ('subtract', 'bottleneck'):
        out.append(dict(base, what='paths', scheme=scheme, num_paths=npaths[int(rng.integers(0, 2))],
                        cutoff=None, nomodel=True, **variant))
    out.append(dict(base, what='top_path', nomodel=True, **variant))
    return out


def gen_widerange(rng):
    """entries of ONE matrix spanning far more than 2^52 (audit class 3, relative thresholds): weights are
    m * 2^-e with small m and e up to 200, stored as the integers m * 2^(E - e); the real matrix is that
    integer matrix times 2^-E (exact).  The heavy entries sit where no source-to-sink path passes (dead
    end, diagonal, unreachable component) so that the `subtract` arithmetic stays exact; where a heavy
    edge lies ON the path (heavy first edge, random exponents) `subtract` is only run with num_paths=1
    (no subtraction happens) and `bottleneck`, which does no arithmetic, is run to exhaustion."""
    k = int(rng.integers(0, 6))
    e = int(rng.integers(60, 121))             # the real paths live at 2^-e of the maximum
    tiny = lambda: int(rng.integers(1, 9))     # noqa: E731
    heavy = 2 ** e
    full_subtract = True
    if k == 0:      # heavy dead end next to a diamond of tiny edges
        F = [[0] * 6 for _ in range(6)]
        F[0][5] = heavy
        a, b = tiny(), tiny()
        F[0][1] = a + b
        F[1][2], F[2][4] = a, a
        F[1][3], F[3][4] = b, b
        base = {'flux': F, 'sources': [0], 'sinks': [4]}
    elif k == 1:    # large diagonal entry on a state of the route
        F = [[0] * 4 for _ in range(4)]
        F[1][1] = heavy
        F[0][1], F[1][3], F[0][2], F[2][3] = tiny(), tiny(), tiny(), tiny()
        base = {'flux': F, 'sources': [0], 'sinks': [3]}
    elif k == 2:    # heavy edge in an unreachable component
        F = [[0] * 5 for _ in range(5)]
        F[3][4] = heavy
        F[0][1], F[1][2], F[0][2] = tiny(), tiny(), tiny()
        base = {'flux': F, 'sources': [0], 'sinks': [2]}
    elif k == 3:    # heavy first edge, the bottleneck far below
        F = [[0] * 4 for _ in range(4)]
        F[0][1] = heavy
        F[1][3], F[1][2], F[2][3] = tiny(), tiny(), tiny()
        base = {'flux': F, 'sources': [0], 'sinks': [3]}
        full_subtract = False
    elif k == 4:    # heavy edge INTO the sink from a state that is only weakly reachable
        F = [[0] * 4 for _ in range(4)]
        F[0][1], F[1][3] = tiny(), heavy
        F[0][2], F[2][3] = tiny(), tiny()
        base = {'flux': F, 'sources': [0], 'sinks': [3]}
        full_subtract = False
    else:           # random digraph, every edge its own exponent in [0, E]
        E = int(rng.choice([60, 120, 200]))
        n = int(rng.integers(3, 8))
        S, T = pick_st(rng, n)
        dens = float(rng.choice([0.3, 0.6]))
        F = [[0] * n for _ in range(n)]
        for i in range(n):
            for j in range(n):
                if rng.random() < dens:
                    F[i][j] = 2 ** int(rng.integers(0, E + 1))
        base = {'flux': F, 'sources': S, 'sinks': T}
        e = E
        full_subtract = False
    base.update(kind='digraph', family='widerange-%d' % k)
    variant = {'dtype': 'float64', 'order': str(rng.choice(['C', 'F'])),
               'container': str(rng.choice(['list', 'array'])), 'scale': 2.0 ** -e}
    out = [dict(base, what='top_path', **variant),
           dict(base, what='paths', scheme='bottleneck', num_paths=None, cutoff=[None, 2.0][int(rng.integers(0, 2))],
                **variant),
           dict(base, what='paths', scheme='subtract', num_paths=None if full_subtract else 1,
                cutoff=[None, 2.0][int(rng.integers(0, 2))], **variant)]
    return out


def probe_unsupported(ctx):
    """containers the code does not document (np.matrix, list of lists, sets of indices): they must not
    silently return a wrong decomposition; raising is fine (outside the property's quantifier)"""
    from enspara import tpt
    base = FIXED[1]
    F = np.array(base['flux'], dtype=float)
    want = None
    for name, call in (('ndarray', lambda: tpt.paths(base['sources'], base['sinks'], F)),
                       ('np.matrix', lambda: tpt.paths(base['sources'], base['sinks'], np.matrix(F))),
                       ('list-of-lists', lambda: tpt.paths(base['sources'], base['sinks'], F.tolist())),
                       ('set-indices', lambda: tpt.paths(set(base['sources']), set(base['sinks']), F))):
        try:
            with np.errstate(all='ignore'):
                ps, fs = call()
            got = ([[int(x) for x in p] for p in ps], [float(f) for f in fs])
            if want is None:
                want = got
            ctx.tag('container-probe:%s=ok' % name)
            if got != want:
                ctx.violation('paths on a %s returns %r, on the ndarray %r' % (name, got, want),
                              dict(base, what='paths', scheme='subtract', num_paths=None, cutoff=None,
                                   probe=name))
        except Exception as e:  # noqa
            ctx.tag('container-probe:%s=raises-%s' % (name, type(e).__name__))


# ----------------------------------------------------------------------------- entry points

def tie_alternatives(ctx):
    def second(case):
        c = case['cutoff'] if case['cutoff'] is not None else DEFAULT_CUTOFF
        rs = ctx.driver([model_req(case, 'paths', cutoff=c - 1e-8), model_req(case, 'paths', cutoff=c + 1e-8)])
        return rs
    return second


def run_cases(ctx, cases):
    withm = [c for c in cases if not c.get('nomodel')]
    answers = iter(ctx.driver([model_req(c, c['what']) for c in withm]))
    resp = [None if c.get('nomodel') else next(answers) for c in cases]
    second = tie_alternatives(ctx)
    for c, r in zip(cases, resp):
        if c['what'] == 'top_path':
            check_top_path(ctx, c, r)
        else:
            check_paths(ctx, c, r, second)


FIXED = [
    # F16 witness: s->a 10, a->b1->t 6, a->b2->t 6
    {'kind': 'digraph', 'flux': [[0, 10, 0, 0, 0], [0, 0, 6, 6, 0], [0, 0, 0, 0, 6], [0, 0, 0, 0, 6], [0, 0, 0, 0, 0]],
     'sources': [0], 'sinks': [4]},
    # upstream test_paths graph (weights x10)
    {'kind': 'conserved', 'flux': [[0, 5, 5, 0, 0, 0], [0, 0, 0, 3, 0, 2], [0, 0, 0, 0, 5, 0], [0, 0, 0, 0, 0, 3],
                                   [0, 0, 0, 0, 0, 0], [0, 0, 0, 0, 0, 0]], 'sources': [0], 'sinks': [4, 5]},
    # a sink that is an interior node of the path to the listed-first sink
    {'kind': 'digraph', 'flux': [[0, 10, 0], [0, 0, 10], [0, 0, 0]], 'sources': [0], 'sinks': [2, 1]},
    # conserved flow on which the bottleneck scheme over-explains (22 > 21)
    {'kind': 'conserved', 'sources': [7], 'sinks': [2, 8],
     'flux': [[0] * 9, [0] * 9, [0] * 9, [0, 0, 1, 0, 0, 3, 0, 0, 7], [0, 0, 0, 6, 0, 0, 0, 0, 2],
              [0, 0, 5, 0, 0, 0, 0, 0, 6], [0] * 9, [0, 0, 0, 5, 8, 8, 0, 0, 0], [0] * 9]},
]


def run(ctx):
    rng = ctx.rng
    cases = []
    for base in FIXED:
        for scheme in ('subtract', 'bottleneck'):
            for npth in (None, 1, 2):
                cases.append(dict(base, what='paths', scheme=scheme, num_paths=npth, cutoff=None))
        cases.append(dict(base, what='top_path'))
    ng = ctx.n(1500, 20000)
    for g in range(ng):
        r = rng.random()
        if r < 0.40:
            base = gen_conserved(rng)
        elif r < 0.85:
            base = gen_digraph(rng) if rng.random() < 0.8 else gen_digraph(rng, 1, 4)
        else:
            base = gen_degenerate(rng)
        cases += settings(rng, base)
    nt = ctx.n(300, 4000)
    for g in range(nt):
        cases += settings(rng, gen_neartie(rng), dtype='float64')
    # the F16 diamond and the upstream graph at MSM-like magnitudes (1e-9 .. 1e-12)
    for base in FIXED[:2]:
        for sc in (2.0 ** -30, 2.0 ** -40):
            for scheme in ('subtract', 'bottleneck'):
                cases.append(dict(base, what='paths', scheme=scheme, num_paths=None, cutoff=None, scale=sc))
    # audit families: degenerate structure, exactly reached cut-offs, > 255 states
    for g in range(ctx.n(100, 1500)):
        cases += settings(rng, gen_structure(rng))
    for g in range(ctx.n(100, 1500)):
        base, cut = gen_exact_cutoff(rng)
        for scheme in ('subtract', 'bottleneck'):
            cases.append(dict(base, what='paths', scheme=scheme, num_paths=None, cutoff=cut,
                              **pick_variant(rng, base)))
    for g in range(ctx.n(4, 30)):
        cases += gen_large(rng, ctx.thorough)
    for g in range(ctx.n(40, 1500)):
        cases += gen_widerange(rng)
    probe_unsupported(ctx)
    run_cases(ctx, cases)
    ctx.note('graphs', ng + nt + len(FIXED))


def replay(ctx, data):
    case = {k: v for k, v in data.items() if k not in ('model', 'impl')}
    r = None if case.get('nomodel') else ctx.driver([model_req(case, case['what'])])[0]
    if case['what'] == 'top_path':
        check_top_path(ctx, case, r)
    else:
        check_paths(ctx, case, r, tie_alternatives(ctx))
