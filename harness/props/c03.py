"""C03 - transition counts equal the exact number of lagged state pairs."""
import itertools
import numpy as np

MIRRORS = [('enspara/msm/transition_matrices.py', ['assigns_to_counts', '_transitions_helper'])]
RULE = ('random sets of integer state trajectories (lengths 1..14 incl. shorter than the lag, '
        'lag 1..7, sliding on/off, explicit/inferred state count; ragged, -1-padded rectangular and '
        'row-permuted forms) + exhaustive slice.indices scope; a case is non-trivial when at least '
        'one lagged pair exists; distinct by canonical input')
ASSUMPTIONS = ['scipy coo_matrix sums duplicate coordinates (scipy contract, exercised by toarray())',
               'numpy basic slicing of 1-D arrays follows CPython slice.indices (checked exhaustively on a small scope each run)']


def ref_counts(rows, lag, sliding, n):
    """triple-loop reference: the property's own words"""
    C = np.zeros((n, n), dtype=int)
    for r in rows:
        r = [x for x in r if x != -1]
        step = 1 if sliding else lag
        for t in range(0, len(r) - lag, step):
            C[r[t], r[t + lag]] += 1
    return C


def impl_counts(rows, lag, sliding, max_n, form, dtype='int64', lag_type='int', positional=False):
    from enspara import ra
    from enspara.msm.transition_matrices import assigns_to_counts
    if form == 'ragged':
        a = ra.RaggedArray([np.array(r, dtype=dtype) for r in rows])
        snap = (a._data.tobytes(), a.lengths.tobytes())
    else:
        L = max(len(r) for r in rows)
        a = -np.ones((len(rows), L), dtype=dtype)
        for i, r in enumerate(rows):
            a[i, :len(r)] = r
        snap = (a.tobytes(),)
    lg = np.int64(lag) if lag_type == 'np' else lag
    mn = (np.int32(max_n) if (max_n is not None and lag_type == 'np') else max_n)
    try:
        if positional:
            C = assigns_to_counts(a, lg, mn, sliding)
        else:
            C = assigns_to_counts(a, lag_time=lg, max_n_states=mn, sliding_window=sliding)
    except Exception as e:  # noqa
        return {'error': type(e).__name__}
    after = (a._data.tobytes(), a.lengths.tobytes()) if form == 'ragged' else (a.tobytes(),)
    if C.shape[0] > 2000:
        # too large to densify: canonical sparse form (duplicates summed)
        Cs = C.tocsr()
        Cs.sum_duplicates()
        Cc = Cs.tocoo()
        out = {'sparse': sorted((int(i), int(j), int(v)) for i, j, v in zip(Cc.row, Cc.col, Cc.data) if v != 0),
               'shape': list(C.shape)}
    else:
        out = {'ok': np.asarray(C.toarray()).tolist(), 'shape': list(C.shape)}
    if after != snap:
        out['modified'] = True
    return out


def check_case(ctx, case, model_resp):
    rows, lag, sliding, max_n = case['rows'], case['lag'], case['sliding'], case['max_n']
    n = max_n if max_n is not None else max(max(r) for r in rows) + 1
    if n > 2000:
        return check_case_sparse(ctx, case, n)
    ref = ref_counts(rows, lag, sliding, n)
    npairs = int(ref.sum())
    forms = {}
    dt = case.get('dtype', 'int64')
    lt = case.get('lag_type', 'int')
    pos = case.get('positional', False)
    for form in (('ragged',) if case.get('ragged_only') else ('ragged', 'padded')):
        forms[form] = impl_counts(rows, lag, sliding, max_n, form, dt, lt, pos)
    perm = list(ctx.rng.permutation(len(rows)))
    forms['permuted'] = impl_counts([rows[i] for i in perm], lag, sliding, max_n, 'ragged', dt, lt, pos)
    ctx.tag('dtype=%s' % dt)
    for form, got in forms.items():
        if got.get('modified'):
            ctx.violation('assigns_to_counts modified its input (%s form)' % form, dict(case, form=form))
            return
    ctx.case(case, nontrivial=npairs > 0,
             tags=['lag=%d' % lag, 'sliding' if sliding else 'strided',
                   'short-row' if any(len(r) <= lag for r in rows) else 'all-long',
                   'explicit-n' if max_n is not None else 'inferred-n'])
    for form, got in forms.items():
        if 'error' in got:
            ctx.violation('assigns_to_counts raised %s on valid input (%s form)' % (got['error'], form),
                          dict(case, form=form))
            return
        if got['shape'] != [n, n]:
            ctx.violation('count matrix shape %s != (%d,%d) (%s form)' % (got['shape'], n, n, form),
                          dict(case, form=form))
            return
        if got['ok'] != ref.tolist():
            ctx.violation('count matrix differs from the number of lagged pairs (%s form)' % form,
                          dict(case, form=form, got=got['ok'], expected=ref.tolist()))
            return
    if sliding:
        tot = sum(max(0, len(r) - lag) for r in rows)
        if int(np.sum(forms['ragged']['ok'])) != tot:
            ctx.violation('total count != sum max(0, len - lag)', case)
            return
    # additivity: counts(A ++ B) = counts(A) + counts(B)
    if len(rows) >= 2:
        k = len(rows) // 2
        a = impl_counts(rows[:k], lag, sliding, n, 'ragged')
        b = impl_counts(rows[k:], lag, sliding, n, 'ragged')
        if 'ok' in a and 'ok' in b:
            if (np.array(a['ok']) + np.array(b['ok'])).tolist() != forms['ragged']['ok']:
                ctx.violation('counts not additive over sets of trajectories', case)
                return
    # model vs implementation
    if 'ok' not in model_resp or model_resp['ok'] != forms['ragged']['ok']:
        ctx.disagreement('Model.Counts.assignsToCounts vs assigns_to_counts',
                         dict(case, model=model_resp, impl=forms['ragged']))


DTYPES = ['int64', 'int32', 'int16', 'int8']


def gen_wide_case(rng):
    """blind-spot families: many states (ids beyond 127 / 255 / 300), narrow dtypes, numpy-typed lag, positional call"""
    dtype = ['int16', 'int32', 'int64'][int(rng.integers(0, 3))]
    nstates = int(rng.choice([120, 128, 200, 256, 257, 300]))
    nrows = int(rng.integers(1, 4))
    rows = []
    for _ in range(nrows):
        L = int(rng.integers(1, 30))
        rows.append([int(x) for x in rng.integers(max(0, nstates - 6), nstates, size=L)])
    lag = int(rng.integers(1, 5))
    mx = max(max(r) for r in rows) + 1
    return {'rows': rows, 'lag': lag, 'sliding': bool(rng.integers(0, 2)),
            'max_n': None if rng.random() < 0.5 else int(mx + rng.integers(0, 2)),
            'dtype': dtype, 'lag_type': 'np' if rng.random() < 0.5 else 'int', 'positional': bool(rng.integers(0, 2))}


def gen_unsigned_case(rng):
    """unsigned dtypes (ragged form only: they cannot hold the -1 padding) with state ids at the top of the
    dtype's range, where a wrapped pad value (-1 -> 255 / 65535) would be confused with a real state"""
    dtype = ['uint8', 'uint16'][int(rng.integers(0, 2))]
    top = 255 if dtype == 'uint8' else 65535
    ids = [top, top - 1, 0, 1, int(rng.integers(0, top))]
    nrows = int(rng.integers(1, 4))
    rows = [[int(ids[int(k)]) for k in rng.integers(0, len(ids), size=int(rng.integers(1, 12)))] for _ in range(nrows)]
    rows[0][int(rng.integers(0, len(rows[0])))] = top
    lag = int(rng.integers(1, 4))
    return {'rows': rows, 'lag': lag, 'sliding': bool(rng.integers(0, 2)),
            'max_n': None if (dtype == 'uint8' and rng.random() < 0.5) else top + 1,
            'dtype': dtype, 'lag_type': 'int', 'positional': False, 'ragged_only': True}


def check_case_sparse(ctx, case, n):
    """state counts too large for a dense table (and for the Lean model): sparse reference only"""
    rows, lag, sliding = case['rows'], case['lag'], case['sliding']
    ref = {}
    for r in rows:
        r = [x for x in r if x != -1]
        for t in range(0, len(r) - lag, 1 if sliding else lag):
            ref[(r[t], r[t + lag])] = ref.get((r[t], r[t + lag]), 0) + 1
    refl = sorted((i, j, v) for (i, j), v in ref.items())
    ctx.case(case, nontrivial=bool(refl), tags=['model-skipped-large-n', 'dtype=%s' % case.get('dtype', 'int64')])
    for form in (('ragged',) if case.get('ragged_only') else ('ragged', 'padded')):
        got = impl_counts(rows, lag, sliding, case['max_n'], form, case.get('dtype', 'int64'),
                          case.get('lag_type', 'int'), case.get('positional', False))
        if 'error' in got:
            ctx.violation('assigns_to_counts raised %s on valid input (%s form)' % (got['error'], form), dict(case, form=form))
            return
        if got.get('modified'):
            ctx.violation('assigns_to_counts modified its input (%s form)' % form, dict(case, form=form))
            return
        if got['shape'] != [n, n]:
            ctx.violation('count matrix shape %s != (%d,%d) (%s form)' % (got['shape'], n, n, form), dict(case, form=form))
            return
        if [list(x) for x in got.get('sparse', [])] != [list(x) for x in refl]:
            ctx.violation('count matrix differs from the number of lagged pairs (%s form, sparse comparison)' % form,
                          dict(case, form=form, got=got.get('sparse', [])[:20], expected=refl[:20]))
            return


def gen_case(rng, big=False):
    c = _gen_case(rng, big)
    c['dtype'] = DTYPES[int(rng.integers(0, len(DTYPES)))] if rng.random() < 0.5 else 'int64'
    c['lag_type'] = 'np' if rng.random() < 0.2 else 'int'
    c['positional'] = bool(rng.random() < 0.2)
    return c


def _gen_case(rng, big=False):
    nstates = int(rng.integers(1, 6))
    nrows = int(rng.integers(1, 6))
    maxlen = 14 if not big else 40
    rows = []
    for _ in range(nrows):
        L = int(rng.integers(1, maxlen + 1))
        rows.append([int(x) for x in rng.integers(0, nstates, size=L)])
    lag = int(rng.integers(1, 8))
    sliding = bool(rng.integers(0, 2))
    mx = max(max(r) for r in rows) + 1
    max_n = None if rng.random() < 0.5 else int(mx + rng.integers(0, 3))
    return {'rows': rows, 'lag': lag, 'sliding': sliding, 'max_n': max_n}


def slice_scope(ctx):
    """tie of the PySlice sub-model to CPython, exhaustive on a small scope"""
    reqs, exp = [], []
    vals = [None] + list(range(-8, 9))
    steps = [None, 1, 2, 3, -1, -2, -3]
    nmax = 6 if not ctx.thorough else 7
    for n in range(0, nmax + 1):
        for a, b, c in itertools.product(vals, vals, steps):
            reqs.append({'op': 'C03.slice', 'len': n, 'start': a, 'stop': b, 'step': c})
            exp.append(list(range(*slice(a, b, c).indices(n))))
    resp = ctx.driver(reqs)
    bad = 0
    for rq, e, r in zip(reqs, exp, resp):
        if r.get('ok') != e:
            bad += 1
            if bad <= 3:
                ctx.disagreement('Model.PySlice.indices vs CPython slice.indices', dict(rq, model=r, cpython=e))
    ctx.tag('slice-scope', len(reqs))
    ctx.evaluations += len(reqs)
    ctx.note('slice_scope_exhaustive', {'n_max': nmax, 'cases': len(reqs), 'mismatches': bad})


def run(ctx):
    slice_scope(ctx)
    cases = [gen_case(ctx.rng) for _ in range(ctx.n(500, 6000))]
    cases += [gen_wide_case(ctx.rng) for _ in range(ctx.n(40, 600))]
    cases += [gen_unsigned_case(ctx.rng) for _ in range(ctx.n(12, 120))]
    if ctx.thorough:
        cases += [gen_case(ctx.rng, big=True) for _ in range(1000)]
        # every (len, lag) residue for single rows
        for L in range(1, 13):
            for lag in range(1, 7):
                for sl in (True, False):
                    cases.append({'rows': [[int(x) for x in ctx.rng.integers(0, 3, size=L)]],
                                  'lag': lag, 'sliding': sl, 'max_n': 3})
    def _n(c):
        return c['max_n'] if c['max_n'] is not None else max(max(r) for r in c['rows']) + 1
    small = [c for c in cases if _n(c) <= 2000]
    reqs = [{'op': 'C03.counts', 'rows': c['rows'], 'lag': c['lag'], 'sliding': c['sliding'],
             'max_n': c['max_n']} for c in small]
    resp = ctx.driver(reqs)
    for c, r in zip(small, resp):
        check_case(ctx, c, r)
    for c in cases:
        if _n(c) > 2000:
            check_case(ctx, c, None)
    # no trajectory at all: the code raises (np.hstack of nothing); the model must reject it too
    from enspara.msm.transition_matrices import assigns_to_counts
    for max_n in (None, 3):
        try:
            assigns_to_counts(np.zeros((0, 5), dtype=int), lag_time=1, max_n_states=max_n)
            real = 'ok'
        except Exception as e:  # noqa
            real = 'error'
        m = ctx.driver([{'op': 'C03.counts', 'rows': [], 'lag': 1, 'sliding': True, 'max_n': max_n}])[0]
        ctx.case({'rows': [], 'lag': 1, 'max_n': max_n}, nontrivial=False, tags=['no-rows'])
        if ('error' in m) != (real == 'error'):
            ctx.disagreement('Model.Counts.assignsToCounts vs assigns_to_counts on an input with no trajectory',
                             {'rows': [], 'max_n': max_n, 'model': m, 'impl': real})
    # MSM.fit(...).tcounts_ goes through the same counting function
    from enspara.msm import MSM, builders
    for c in cases[:ctx.n(30, 300)]:
        if c['max_n'] is None:
            continue
        try:
            m = MSM(lag_time=c['lag'], method=builders.normalize, trim=False,
                    max_n_states=c['max_n'])
            import enspara.ra as ra
            m.fit(ra.RaggedArray([np.array(r) for r in c['rows']]))
            got = np.asarray(m.tcounts_.toarray() if hasattr(m.tcounts_, 'toarray') else m.tcounts_)
        except Exception as e:  # noqa
            ctx.skip('MSM.fit raised %s' % type(e).__name__)
            continue
        ref = ref_counts(c['rows'], c['lag'], True, c['max_n'])
        ctx.tag('msm-fit')
        if not m.sliding_window:
            ref = ref_counts(c['rows'], c['lag'], False, c['max_n'])
        if got.tolist() != ref.tolist():
            ctx.violation('MSM.fit tcounts_ differ from the lagged pair count', dict(c, via='MSM.fit'))


def replay(ctx, data):
    if data.get('op') == 'C03.slice':
        r = ctx.driver([{k: data[k] for k in ('op', 'len', 'start', 'stop', 'step')}])[0]
        e = list(range(*slice(data['start'], data['stop'], data['step']).indices(data['len'])))
        if r.get('ok') != e:
            ctx.disagreement('Model.PySlice.indices vs CPython slice.indices', data)
        return
    c = {k: data[k] for k in ('rows', 'lag', 'sliding', 'max_n', 'dtype', 'lag_type', 'positional', 'ragged_only') if k in data}
    nn = c['max_n'] if c['max_n'] is not None else max(max(r) for r in c['rows']) + 1
    r = None if nn > 2000 else ctx.driver([{'op': 'C03.counts', 'rows': c['rows'], 'lag': c['lag'], 'sliding': c['sliding'], 'max_n': c['max_n']}])[0]
    check_case(ctx, c, r)
