"""C06 - ragged-array writes keep all views coherent over any operation history.

Three-way differential after EVERY step of a history:
  real RaggedArray  vs  Python list-of-rows oracle     -> ctx.violation  (the property's own words)
  real RaggedArray  vs  Lean model `Ens.RaggedW.step`   -> ctx.disagreement
  Lean `specStep`   vs  Python list-of-rows oracle      -> ctx.disagreement (ties the spec the theorems
                                                           speak about to the oracle used here)
A deviation real-vs-oracle gets a known-finding key only when (a) the operation falls into the
syntactic input class of that finding and (b) the Lean model of the code *predicts exactly what the
real code did*; anything else is reported with key=None.
"""
import itertools
import operator
import warnings
from fractions import Fraction

import numpy as np

RULE = ('random histories (1..12 ops) of element / row-view / row / row-slice / row-list / (int,slice) / '
        '(slice|list, slice|int|list) / paired / mask assignments, appends, whole-array and indexed augmented '
        'arithmetic, pure binary/unary operators and copy constructions, from random ragged arrays (1..5 rows, '
        'lengths 1..5, 35% equal-length, int/float/bool, 4 constructor forms); indices incl. negative and '
        'just-out-of-range, slice bounds -(len+2)..len+2, steps +-1..3; every observer compared after every step; '
        '+ an exhaustive scope of single writes on small arrays; + operator purity and aliasing probes. '
        'A case is one step of one history; non-trivial when the oracle accepts the operation and it changes or '
        'observes at least one cell; distinct by canonical (state, op).')
ASSUMPTIONS = [
    'numpy assignment/casting/broadcasting semantics on 1-d rows are the reference for the list-of-rows oracle',
    'Lean elements are exact rationals: generated values are small ints / dyadic floats so that float arithmetic is exact',
    'the staged ra.py is held to the fully repaired variant of the Lean model (Cfg.current = all six repairs); '
    'six behavioural probes must detect every repair, a probe that does not is reported as a violation',
    'copy=False construction is documented aliasing and is excluded',
]
TRUSTED_EXTRA = ['Python list-of-rows oracle in harness/props/c06.py (Spec class); compared with Lean specStep on every step']

# source functions mirrored by lean/Model/RaggedW.lean
MIRRORS = [('enspara/ra/ra.py', [
    'where', '_convert_from_1d', '_handle_negative_indices', '_convert_from_2d', '_slice_to_list',
    'partition_list', '_row_views', '_is_iterable', '_ensure_ragged_data', '_get_iis_from_slices',
    '_get_iis_from_list', 'RaggedArray.__init__', 'RaggedArray.__setitem__', 'RaggedArray.__getitem__',
    'RaggedArray.__invert__', 'RaggedArray.map_operator', 'RaggedArray.append', 'RaggedArray.starts',
    'RaggedArray.__len__', 'RaggedArray.all', 'RaggedArray.any', 'RaggedArray.max', 'RaggedArray.min',
    'RaggedArray.flatten', 'RaggedArray.size', 'RaggedArray.shape', 'RaggedArray.dtype'])]

DT = {'int': np.int64, 'float': np.float64, 'bool': np.bool_, 'int8': np.int8, 'int16': np.int16,
      'int32': np.int32, 'float32': np.float32}
KIND = {'i': 'int', 'f': 'float', 'b': 'bool', 'u': 'int'}


class SpecError(Exception):
    pass


def sl(t):
    return slice(*t)


# ================================================================== list-of-rows oracle
class Spec:
    """a Python list of 1-d numpy rows sharing one dtype"""

    def __init__(self, rows, dtype=None):
        self.rows = [np.array(r, dtype=dtype) for r in rows]
        self.norm()

    def norm(self):
        if self.rows:
            dts = set(r.dtype for r in self.rows)
            if len(dts) > 1:
                dt = np.result_type(*dts)
                self.rows = [np.asarray(r).astype(dt) for r in self.rows]

    @property
    def kind(self):
        return KIND.get(self.rows[0].dtype.kind, 'other')

    @property
    def dtname(self):
        """name in DT of the rows' dtype (for rebuilding the real object from the oracle's rows)"""
        for k_, v_ in DT.items():
            if np.dtype(v_) == self.rows[0].dtype:
                return k_
        return self.kind

    def copy(self):
        s = Spec.__new__(Spec)
        s.rows = [r.copy() for r in self.rows]
        return s

    def _row_index(self, i):
        n = len(self.rows)
        if not -n <= i < n:
            raise SpecError('index')
        return i % n

    def _row_sel(self, sel):
        n = len(self.rows)
        if 'slice' in sel:
            if sel['slice'][2] == 0:
                raise SpecError('value')
            return list(range(n))[sl(sel['slice'])]
        return [self._row_index(i) for i in sel['list']]

    def _col_sel(self, r, sel):
        L = len(self.rows[r])
        if 'slice' in sel:
            if sel['slice'][2] == 0:
                raise SpecError('value')
            return list(range(L))[sl(sel['slice'])]
        js = [sel['int']] if 'int' in sel else sel['list']
        out = []
        for j in js:
            if not -L <= j < L:
                raise SpecError('index')
            out.append(j % L)
        return out

    @staticmethod
    def _flat_vals(v, n):
        if not isinstance(v, (list, tuple, np.ndarray)) or (isinstance(v, np.ndarray) and v.ndim == 0):
            return [v] * n
        flat = []
        for x in v:
            if isinstance(x, (list, tuple, np.ndarray)):
                flat.extend(list(x))
            else:
                flat.append(x)
        if len(flat) == 1:
            return flat * n                     # numpy broadcasts a single value
        if len(flat) != n:
            raise SpecError('value')
        return flat

    def _scatter(self, targets, v):
        vals = self._flat_vals(v, len(targets))
        for (r, c), x in zip(targets, vals):
            self.rows[r][c] = x

    def targets(self, op):
        rs = self._row_sel(op['r'])
        return [(r, c) for r in rs for c in self._col_sel(r, op['c'])]

    def paired(self, op):
        ri, ci = op['r'], op['c']
        if len(ri) != len(ci):
            if len(ci) == 1:
                ci = ci * len(ri)
            elif len(ri) == 1:
                ri = ri * len(ci)
            else:
                raise SpecError('value')
        tg = []
        for i, j in zip(ri, ci):
            r = self._row_index(i)
            tg.append((r, self._col_sel(r, {'int': j})[0]))
        return tg

    def apply(self, op):
        """mutates; returns the result rows of a pure operator (else None)"""
        k = op['k']
        if k in ('setElem', 'viewWrite'):
            r = self._row_index(op['i'])
            c = self._col_sel(r, {'int': op['j']})[0]
            self.rows[r][c] = op['v']
        elif k == 'setRow':
            r = self._row_index(op['i'])
            self.rows[r] = np.array(op['v'])
            self.norm()
        elif k == 'setRows':
            vs = [np.array(x) for x in op['v']]
            # numpy: the value's shape is checked against the selection's shape before the bounds
            if 'list' in op['sel'] and len(vs) != len(op['sel']['list']):
                raise SpecError('value')
            tg = self._row_sel(op['sel'])
            if len(vs) != len(tg):
                raise SpecError('value')
            for r, v in zip(tg, vs):
                self.rows[r] = v
            self.norm()
        elif k == 'setIntSlice':
            r = self._row_index(op['i'])
            cs = self._col_sel(r, {'slice': op['sl']})
            self._scatter([(r, c) for c in cs], op['v'])
        elif k == 'set2d':
            self._scatter(self.targets(op), op['v'])
        elif k == 'setPaired':
            self._scatter(self.paired(op), op['v'])
        elif k == 'setMask':
            m = op['mask']
            if [len(x) for x in m] != [len(r) for r in self.rows]:
                raise SpecError('index')
            tg = [(r, c) for r, row in enumerate(m) for c, b in enumerate(row) if b]
            self._scatter(tg, op['v'])
        elif k == 'append':
            if not op['v']:
                raise SpecError('index')
            self.rows.extend(np.array(x) for x in op['v'])
            self.norm()
        elif k == 'appendFlat':
            if not op['v']:
                raise SpecError('index')
            self.rows.append(np.array(op['v']))
            self.norm()
        elif k in ('iop', 'iop2'):
            self.rows = self.binop(op)
            self.norm()
        elif k == 'iopAt':
            tg = self.targets(op)
            fn = OPS[op['f']]
            new = [fn(self.rows[r][c], op['c_']) for r, c in tg]
            for (r, c), x in zip(tg, new):
                self.rows[r][c] = x
        elif k in ('binop', 'binop2'):
            return self.binop(op)
        elif k == 'copyCtor':
            pass
        else:
            raise KeyError(k)
        return None

    def binop(self, op):
        f = op['f']
        if f == 'invert':
            return [~r for r in self.rows]
        fn = OPS[f]
        if op['k'] in ('iop2', 'binop2'):
            o = op['o']
            if [len(x) for x in o] != [len(r) for r in self.rows]:
                raise SpecError('value')
            dt = np.result_type(*[np.array(x).dtype for x in o])
            return [fn(r, np.array(x, dtype=dt)) for r, x in zip(self.rows, o)]
        c = op['c_']
        if op.get('refl'):
            return [fn(c, r) for r in self.rows]
        return [fn(r, c) for r in self.rows]


OPS = {'add': operator.add, 'sub': operator.sub, 'mul': operator.mul,
       'floordiv': operator.floordiv, 'mod': operator.mod, 'truediv': operator.truediv,
       'eq': operator.eq, 'ne': operator.ne, 'lt': operator.lt, 'le': operator.le,
       'gt': operator.gt, 'ge': operator.ge, 'or': operator.or_, 'and': operator.and_,
       'xor': operator.xor}
IOPS = {'add': operator.iadd, 'sub': operator.isub, 'mul': operator.imul,
        'floordiv': operator.ifloordiv, 'mod': operator.imod, 'truediv': operator.itruediv,
        'or': operator.ior, 'and': operator.iand, 'xor': operator.ixor}


# ================================================================== value / index containers
def _wrap_scalar(x, how):
    if how is None:
        return x
    if how == '0d':
        return np.array(x)
    wide = how == 'np64'
    if isinstance(x, bool):
        return np.bool_(x)
    if isinstance(x, int):
        return (np.int64 if wide else np.int32)(x)
    return (np.float64 if wide else np.float32)(x)


def _wrap_int(i, how):
    if how == 'np32':
        return np.int32(i)
    if how == 'np64':
        return np.int64(i)
    return i


def mat(op, default_dtype=None):
    """the op with its values in the containers / dtypes it asks for ('vw': wrapper of scalar
    values, 'vdt': dtype of array values); the same objects go to the oracle and to the real code"""
    vw, vdt = op.get('vw'), op.get('vdt')
    k = op['k']
    rowsv = [key for key in ('v', 'o') if isinstance(op.get(key), list) and op[key]
             and all(isinstance(r, list) for r in op[key])
             and (key == 'o' or op.get('form') in ('ra', 'listarr'))]
    if vw is None and vdt is None and not any(len(r) == 0 for key in rowsv for r in op[key]):
        return op
    o = dict(op)
    if vdt is None:
        # an empty row of a row-structured value has the dtype of the other rows (not numpy's float64 default)
        for key in rowsv:
            full = [np.array(r) for r in op[key] if len(r)]
            dt0 = np.result_type(*[x.dtype for x in full]) if full else default_dtype
            if dt0 is not None:
                o[key] = [np.array(r, dtype=dt0) for r in op[key]]
    if vw is not None:
        if 'c_' in o:
            o['c_'] = _wrap_scalar(o['c_'], vw)
        if k in ('setElem', 'viewWrite') or o.get('vt') == 'scalar':
            # (a 0-d ARRAY is not a scalar for an assignment: numpy broadcasts it, RaggedArray treats it
            #  as a sized iterable; outside the property's "scalar" - only numpy scalars are generated)
            o['v'] = _wrap_scalar(o['v'], 'np64' if vw == '0d' else vw)
    if vdt is not None:
        dt = DT[vdt]
        if o.get('vt') == 'flat' or k == 'appendFlat' or (k == 'setRow' and o.get('arr')):
            if k != 'appendFlat':
                o['v'] = np.array(o['v'], dtype=dt)
        elif (o.get('vt') == 'nested' or k in ('setRows', 'append')) and o.get('form') in ('ra', 'listarr', 'arr2d'):
            o['v'] = [np.array(r, dtype=dt) for r in o['v']]
        if k in ('iop2', 'binop2'):
            o['o'] = [np.array(r, dtype=dt) for r in o['o']]
    return o


# ================================================================== canonical values
def unbox(x):
    if isinstance(x, np.ndarray) and x.size == 1:
        y = x.reshape(-1)[0]
        if not isinstance(y, (np.ndarray, list, tuple)):
            return y
    return x


def cs(x):
    """canonical scalar: an exact Fraction (bools are 0/1); anything else is marked"""
    if isinstance(x, Fraction):
        return x
    if isinstance(x, (np.ndarray, list, tuple)):
        return ['NESTED'] + [cs(y) for y in x]
    if isinstance(x, (bool, np.bool_)):
        return Fraction(int(x))
    if isinstance(x, (int, np.integer)):
        return Fraction(int(x))
    if isinstance(x, (float, np.floating)):
        f = float(x)
        if f != f or f in (float('inf'), float('-inf')):
            return repr(f)
        return Fraction(f)
    return repr(x)


def crow(r):
    return [cs(x) for x in r]


def crows(rows):
    return [crow(r) for r in rows]


def crow_l(r):
    """light canonical row (big integer arrays): Python scalars via tolist()"""
    return r.tolist() if isinstance(r, np.ndarray) else [x.item() if isinstance(x, np.generic) else x for x in r]


def crows_l(rows):
    return [crow_l(r) for r in rows]


def q(x):
    """Fraction / scalar -> JSON for the driver"""
    f = cs(x)
    if not isinstance(f, Fraction):
        raise ValueError('not a number: %r' % (x,))
    return f.numerator if f.denominator == 1 else [f.numerator, f.denominator]


def unq(j):
    if isinstance(j, list):
        return Fraction(j[0], j[1])
    return j


def jsonable(o):
    if isinstance(o, Fraction):
        return float(o) if o.denominator != 1 else int(o)
    if isinstance(o, dict):
        return {k: jsonable(v) for k, v in o.items()}
    if isinstance(o, (list, tuple)):
        return [jsonable(x) for x in o]
    if isinstance(o, (np.generic,)):
        return o.item()
    return o


# ================================================================== real code
def build_real(rows, dtype, ctor, keep=None):
    """returns the RaggedArray; `keep` (a list) receives the caller-side source arrays"""
    from enspara import ra
    dt = DT[dtype]
    if ctor == 'nested':
        src = [np.array(r, dtype=dt) for r in rows]
        a = ra.RaggedArray(src)
    elif ctor == 'lists':
        src = [np.array(r, dtype=dt).tolist() for r in rows]
        a = ra.RaggedArray(src)
    elif ctor == 'nested-nocheck':
        src = [np.array(r, dtype=dt) for r in rows]
        a = ra.RaggedArray(array=src, error_checking=False, copy=True)
    elif ctor in ('flat', 'flat-np', 'flat-kw', 'flat-tuple'):
        flat = np.concatenate([np.array(r, dtype=dt) for r in rows])
        L = [len(r) for r in rows]
        src = [flat]
        if ctor == 'flat-kw':
            a = ra.RaggedArray(lengths=np.array(L, dtype=np.int32), array=flat, copy=True, error_checking=False)
        elif ctor == 'flat-tuple':
            a = ra.RaggedArray(flat, tuple(L))
        else:
            a = ra.RaggedArray(flat, lengths=(np.array(L) if ctor == 'flat-np' else L))
    else:
        raise KeyError(ctor)
    if keep is not None:
        keep[:] = src
    return a


def mkval(v, form):
    from enspara import ra
    if form == 'ra':
        return ra.RaggedArray([np.array(r) for r in v])
    if form == 'listarr':
        return [np.array(r) for r in v]
    if form == 'listlist':
        return [[(x.item() if isinstance(x, np.generic) else x) for x in r] for r in v]
    if form == 'arr2d':
        return np.array(v)
    raise KeyError(form)


def mkscatter(op):
    v, vt = op['v'], op['vt']
    if vt == 'scalar':
        return v
    if vt == 'flat':
        return np.array(v)
    return mkval(v, op.get('form', 'listarr'))


def snap_index(x):
    """byte snapshot of an index object handed to __getitem__/__setitem__"""
    if isinstance(x, np.ndarray):
        return (str(x.dtype), x.shape, x.tobytes())
    if type(x).__name__ == 'RaggedArray':
        return snapshot(x)
    return repr(x)


def index_object(ids, dtname, aux):
    """the index container for `ids`: a python list (dtname None) or an integer ndarray.  The caller of a
    RaggedArray keeps its index arrays: within one history the SAME ndarray object is handed over every
    time the same ids (as originally written) are used (`aux['pool']`); every index object is
    byte-snapshotted (`aux['idx']`) and must come back unchanged."""
    if dtname is None:
        obj = list(ids)
    else:
        key = (tuple(ids), dtname)
        pool = aux['pool'] if aux is not None else {}
        if key not in pool:
            pool[key] = np.array(list(ids), dtype=np.int32 if dtname == 'np32' else int)
        obj = pool[key]
    if aux is not None:
        aux['idx'].append((obj, snap_index(obj), list(ids)))
    return obj


def idx(sel, aux=None):
    if 'slice' in sel:
        return sl(sel['slice'])
    if 'int' in sel:
        return sel['int']
    return index_object(sel['list'], 'np32' if sel.get('np32') else 'np64' if sel.get('np') else None, aux)


def apply_real(a, op, box=None, aux=None):
    """returns (array bound to the name afterwards, result of a pure operator or None);
    `box` (a list) receives a RaggedArray operand, so that the caller can check it afterwards;
    `aux` = {'vals': [...value containers handed to the array...], 'views': {row: view held by the caller}}"""
    from enspara import ra
    k = op['k']
    iw = op.get('iw')
    vals = aux['vals'] if aux is not None else []

    def keepv(x):
        if isinstance(x, (np.ndarray, list)) or type(x).__name__ == 'RaggedArray':
            vals.append(x)
        return x

    def parr(l):
        return index_object(l, 'np32' if iw == 'np32' else 'np64', aux)

    if k == 'setElem':
        a[_wrap_int(op['i'], iw), _wrap_int(op['j'], iw)] = op['v']
    elif k == 'viewWrite':
        n = len(a)
        r = op['i'] % n if -n <= op['i'] < n else None
        if op.get('held') and aux is not None and r in aux['views']:
            row = aux['views'][r]               # a view the caller took earlier in the history
        else:
            row = a[_wrap_int(op['i'], iw)]
        row[_wrap_int(op['j'], iw)] = op['v']
        if aux is not None and r is not None:
            aux['views'][r] = row
    elif k == 'setRow':
        v = op['v']
        a[_wrap_int(op['i'], iw)] = keepv(v if isinstance(v, np.ndarray) else (np.array(v) if op.get('arr') else list(v)))
    elif k == 'setRows':
        a[idx(op['sel'], aux)] = keepv(mkval(op['v'], op['form']))
    elif k == 'setIntSlice':
        a[_wrap_int(op['i'], iw), sl(op['sl'])] = keepv(mkscatter(op))
    elif k == 'set2d':
        a[idx(op['r'], aux), idx(op['c'], aux)] = keepv(mkscatter(op))
    elif k == 'setPaired':
        r, c = op['r'], op['c']
        form = op.get('pform', 'arr')
        if form == 'int-int':
            key = (_wrap_int(r[0], iw), _wrap_int(c[0], iw))
        elif form == 'int-arr':
            key = (_wrap_int(r[0], iw), parr(c))
        elif form == 'arr-int':
            key = (parr(r), _wrap_int(c[0], iw))
        else:
            key = (parr(r), parr(c))
        if op.get('readfirst') and aux is not None:
            aux['read'] = [unbox(x) for x in np.atleast_1d(a[key])]      # a[(rows, cols)] read, same index objects
        a[key] = keepv(mkscatter(op))
    elif k == 'setMask':
        m = ra.RaggedArray([np.array(x, dtype=bool) for x in op['mask']])
        if aux is not None:
            aux['idx'].append((m, snap_index(m), 'mask'))
        a[m] = keepv(mkscatter(op))
    elif k == 'append':
        a.append(keepv(mkval(op['v'], op['form'])))
    elif k == 'appendFlat':
        a.append(list(op['v']))
    elif k in ('iop', 'iop2', 'binop', 'binop2'):
        if op['f'] == 'invert':
            res = ~a
        else:
            o = ra.RaggedArray([np.array(r) for r in op['o']]) if k in ('iop2', 'binop2') else op['c_']
            if box is not None and k in ('iop2', 'binop2'):
                box.append((o, snapshot(o)))
            if op.get('refl'):
                res = OPS[op['f']](o, a)
            elif k in ('iop', 'iop2') and op['f'] in IOPS:
                res = IOPS[op['f']](a, o)          # `a ⊕= o` (no __iadd__: falls back to __add__)
            else:
                res = OPS[op['f']](a, o)
        if type(res).__name__ != 'RaggedArray':
            raise NotRagged(type(res).__name__)
        if k in ('iop', 'iop2'):
            return res, None
        return a, res
    elif k == 'iopAt':
        key = (idx(op['r'], aux), idx(op['c'], aux))
        a[key] = IOPS[op['f']](a[key], op['c_'])      # what `a[key] ⊕= c` does
    elif k == 'copyCtor':
        if op['viaFlat']:
            L = [int(x) for x in a.lengths]
            a = ra.RaggedArray(np.array(a.flatten(), dtype=a.dtype), lengths=(np.array(L) if op['np'] else L))
        else:
            a = ra.RaggedArray([np.array(a[i], dtype=a.dtype) for i in range(len(a))])
    else:
        raise KeyError(k)
    return a, None


class NotRagged(Exception):
    """an operator returned something that is not a RaggedArray"""


def poke(x):
    """change a value container in place (after it was handed to the array)"""
    if type(x).__name__ == 'RaggedArray':
        poke(x._data)
    elif isinstance(x, np.ndarray):
        if x.dtype == object:
            for y in x.reshape(-1):
                poke(y)
        elif x.size:
            if x.dtype == bool:
                np.logical_not(x, out=x)
            else:
                np.add(x, 7, out=x, casting='unsafe')
    elif isinstance(x, list):
        for y in x:
            if isinstance(y, np.ndarray):
                poke(y)


OBS = ['lengths', 'starts', 'len', 'rows', '_array', 'flat', '_data', 'elems', 'iter', 'getslice',
       'size', 'shape', 'max', 'min', 'all', 'any', 'objdtype']


def sample_rows(n, lengths=None):
    """rows whose cells are read one by one on big arrays"""
    return sorted(set(i for i in (0, 1, 2, 254, 255, 256, 257, n // 2, n - 2, n - 1) if 0 <= i < n))


def observe_real(a, light=False):
    out = {}
    R, R1 = (crows_l, crow_l) if light else (crows, crow)

    def grab(name, f):
        try:
            out[name] = f()
        except Exception as e:  # noqa
            out[name] = 'EXC:' + type(e).__name__

    n = len(a.lengths)
    grab('lengths', lambda: [int(x) for x in a.lengths])
    grab('starts', lambda: [int(x) for x in a.starts])
    grab('len', lambda: len(a))
    grab('rows', lambda: R([a[i] for i in range(n)]))
    grab('_array', lambda: R(list(a._array)))
    grab('flat', lambda: R1(a.flatten()))
    grab('_data', lambda: R1(a._data))
    rows_e = sample_rows(n) if light else range(n)
    grab('elems', lambda: [[cs(unbox(a[i, j])) for j in range(min(int(a.lengths[i]), 300 if light else 10 ** 9))]
                           for i in rows_e])
    grab('iter', lambda: R([r for r in a]))
    grab('getslice', lambda: R(list(a[:]._array)))
    grab('size', lambda: int(a.size))
    grab('shape', lambda: [None if x is None else int(x) for x in a.shape])
    grab('max', lambda: cs(a.max()))
    grab('min', lambda: cs(a.min()))
    grab('all', lambda: bool(a.all()))
    grab('any', lambda: bool(a.any()))
    grab('objdtype', lambda: bool(a.dtype == object))
    return out


def observe_rows(rows, light=False):
    """what every observer must show for this list of rows"""
    L = [len(r) for r in rows]
    cr = crows_l(rows) if light else crows(rows)
    el = [[cs(x) for x in cr[i][:300]] for i in sample_rows(len(rows))] if light else cr
    flat = [x for r in cr for x in r]
    fl = np.concatenate(rows) if rows else np.array([])
    return {
        'lengths': L, 'starts': [int(x) for x in (np.cumsum([0] + L)[:-1])], 'len': len(rows),
        'rows': cr, '_array': cr, 'flat': flat, '_data': flat, 'elems': el, 'iter': cr,
        'getslice': cr, 'size': sum(L),
        'shape': [len(rows), L[0] if len(set(L)) == 1 else None],
        'max': cs(fl.max()) if fl.size else 'EXC:ValueError', 'min': cs(fl.min()) if fl.size else 'EXC:ValueError',
        'all': bool(fl.all()), 'any': bool(fl.any()), 'objdtype': False,
    }


def observe_model(st):
    """driver state JSON -> the same dictionary shape"""
    arr = [[unq(x) for x in r] for r in st['_array']]
    data = [unq(x) for x in st['_data']]
    elems = [[(unq(x) if not isinstance(x, str) else 'EXC:' + x) for x in r] for r in st['elems']]
    L = st['lengths']
    return {
        'lengths': L, 'starts': st['starts'], 'len': st['len'], 'rows': arr, '_array': arr,
        'flat': data, '_data': data, 'elems': elems, 'iter': [[unq(x) for x in r] for r in st['iter']],
        'getslice': arr, 'size': st['size'],
        'max': unq(st['max']) if st['max'] is not None else 'EXC:ValueError',
        'min': unq(st['min']) if st['min'] is not None else 'EXC:ValueError', 'all': st['all'], 'any': st['any'],
        'objdtype': st['objdtype'],
    }


def diff(o1, o2, keys=None):
    return [k for k in (keys or o2) if k in o1 and k in o2 and o1[k] != o2[k]]


def snapshot(a):
    return (a._data.tobytes() if a._data.dtype != object else repr(a._data.tolist()),
            [int(x) for x in a.lengths], repr([list(r) for r in a._array]))


def errclass(e):
    from enspara.exception import DataInvalid
    if isinstance(e, NotRagged):
        return 'not-ragged'
    if isinstance(e, IndexError):
        return 'index-error'
    if isinstance(e, DataInvalid):
        return 'data-invalid'
    return 'value-error'


# ================================================================== which variant is staged
def detect_cfg():
    from enspara import ra

    def ok(f):
        try:
            with warnings.catch_warnings():
                warnings.simplefilter('ignore')
                return bool(f())
        except Exception:  # noqa
            return False

    def mk(rows):
        return ra.RaggedArray([np.array(r) for r in rows])

    def p_reads():
        a = mk([[1, 2], [3, 4, 5]])
        a[:, -1:] = 0
        b = mk([[1, 2], [3, 4, 5]])
        b[:, 2:] = 9
        c = mk([[1, 2], [3, 4, 5]])
        c[c > 9] = 7
        d = mk([[1, 2], [3, 4, 5]])
        d[::-1, 0] = [8, 9]
        return (crows(a) == crows([[1, 0], [3, 4, 0]]) and crows(b) == crows([[1, 2], [3, 4, 9]])
                and crows(c) == crows([[1, 2], [3, 4, 5]]) and crows(d) == crows([[9, 2], [8, 4, 5]]))

    def p_rowviews():
        a = mk([[1, 2], [3, 4]])
        a[0] = [7, 8, 9]
        b = mk([[1, 2], [3, 4], [5, 6]])
        b[0:2] = mk([[7, 8], [9, 10]])
        return crows(a) == crows([[7, 8, 9], [3, 4]]) and crows(b) == crows([[7, 8], [9, 10], [5, 6]]) \
            and b.dtype != object

    def p_arrayviews():
        a = mk([[1, 2], [3, 4]])
        r = a[0]
        r[0] = 9
        return int(unbox(a[0, 0])) == 9

    def p_append():
        a = mk([[1, 2], [3, 4, 5]])
        a.append([6, 7])
        return crows(a) == crows([[1, 2], [3, 4, 5], [6, 7]])

    def p_priority():
        a = mk([[1, 2], [3, 4]])
        b = mk([[1, 2], [3, 4, 5]])
        return type(np.int64(2) * a).__name__ == 'RaggedArray' and crows(np.float32(1) + b) == crows([[2, 3], [4, 5, 6]]) \
            and crows(np.array(3) < b) == crows([[False, False], [False, True, True]])

    def p_appendempty():
        a = ra.RaggedArray([np.array([], dtype=int), np.array([], dtype=int)])
        a.append([np.array([1])])
        return [int(x) for x in a.lengths] == [0, 0, 1]

    return {'reads': ok(p_reads), 'rowviews': ok(p_rowviews), 'arrayviews': ok(p_arrayviews),
            'append': ok(p_append), 'priority': ok(p_priority), 'appendempty': ok(p_appendempty)}


REPAIRS = {
    'reads': 'read-side index helpers (CPython slice semantics, empty selections, all-false masks) - C05-ra-reads',
    'rowviews': 'row assignment on equal-length arrays works on one view per row - C06-setitem-row-views',
    'arrayviews': '_array is never a 2-d object copy (row views write through to _data) - C06-array-row-views',
    'append': 'append() of one flat row - C06-append-flat-row',
    'priority': 'numpy scalars / 0-d arrays on the left of an operator defer to the reflected operators - C06-array-priority',
    'appendempty': 'append() keeps the rows of an array whose rows are all empty - C06-append-all-empty',
}
# /repo HEAD: all six repairs are committed
CFG_CURRENT = {'reads': True, 'rowviews': True, 'arrayviews': True, 'append': True, 'priority': True,
               'appendempty': True}


def enforce_variant(ctx):
    """/repo HEAD carries all six repairs: a probe that does not see one is a violation; the
    Lean model is always driven in its fully repaired variant"""
    seen = detect_cfg()
    ctx.note('variant_probes', seen)
    for k_, ok_ in seen.items():
        ctx.tag('probe:%s=%s' % (k_, ok_))
        ctx.case({'probe': k_}, nontrivial=True, tags=['probe'])
        if not ok_ and k_ in REPAIRS:
            ctx.violation('repair no longer in effect: %s' % REPAIRS[k_], {'probe': k_}, key=None)
    return dict(CFG_CURRENT)


# ================================================================== input classes of the repaired defects
# (no open finding is left for C06: `classify` only names the class in the evidence tags; a deviation
#  in any of these classes is a plain VIOLATION because no key is open in known_findings.d/C06.json)
def _slice_feats(s, n, axis):
    a, b, c = s
    f = []
    if c is not None and c < 0:
        f.append(axis + '-slice-negative-step')
    if axis == 'row':
        if (a is not None and a < -n) or (b is not None and b > n):
            f.append('row-slice-out-of-range')
    else:
        if a is not None and a < 0:
            f.append('col-slice-negative-start')
    return f


def is_rect(spec):
    return len(set(len(r) for r in spec.rows)) == 1


def classify(op, spec):
    """key of the known-finding input class of `op` at list-of-rows state `spec` (None = none)"""
    k = op['k']
    n = len(spec.rows)
    Ls = [len(r) for r in spec.rows]
    if k in ('append', 'appendFlat') and not any(len(r) for r in spec.rows):
        return 'append-all-empty-rows'
    if is_np_left(op):
        return 'numpy-scalar-left-operand'
    if k == 'setMask' and not any(any(m) for m in op['mask']):
        return 'setmask-all-false'
    if k == 'iopAt':
        try:
            if not spec._row_sel(op['r']):
                # a[r, c] op= k reads back a RaggedArray without rows; `value[0]` in __setitem__
                return 'iopat-no-row-selected'
        except SpecError:
            pass
    if k in ('set2d', 'iopAt'):
        feats = []
        if 'slice' in op['r']:
            feats += _slice_feats(op['r']['slice'], n, 'row')
        if 'slice' in op['c']:
            feats += _slice_feats(op['c']['slice'], max(Ls), 'col')
        if feats:
            return 'set2d-' + feats[0]
        try:
            rs = spec._row_sel(op['r'])
            if not rs:
                return 'set2d-empty-selection'
            if 'slice' in op['c'] and any(len(spec._col_sel(r, op['c'])) == 0 for r in rs):
                return 'set2d-empty-selection'
        except SpecError:
            pass
    rect = is_rect(spec)
    if k == 'setRow' and rect and -n <= op['i'] < n:
        return 'setrow-rectangular-resize' if len(op['v']) != Ls[0] else 'rowwrite-object-dtype'
    if k == 'setRows' and rect:
        return 'setrows-rectangular'
    if k == 'setIntSlice' and rect:
        return 'rowwrite-object-dtype'
    if k in ('setRows', 'append') and op.get('form') == 'ra' and op['v'] and len(set(map(len, op['v']))) == 1:
        return 'rowwrite-object-dtype'
    if k == 'viewWrite' and rect:
        return 'viewwrite-rectangular'
    if k == 'appendFlat':
        return 'append-flat-row'
    return None


# ================================================================== generators
def rint(rng, lo, hi):
    return int(rng.integers(lo, hi + 1))


def gen_scalar(rng, kind):
    if kind == 'int':
        return rint(rng, -9, 9)
    if kind == 'bool':
        return bool(rint(rng, 0, 1))
    return rint(rng, -8, 8) / 2.0


def gen_rowvals(rng, kind, n):
    return [gen_scalar(rng, kind) for _ in range(n)]


def gen_lengths(rng, nmax=5, lmax=5):
    n = rint(rng, 1, nmax)
    if rng.random() < 0.35:
        return [rint(rng, 1, lmax)] * n
    return [rint(rng, 1, lmax) for _ in range(n)]


CTORS = ['nested', 'lists', 'flat', 'flat-np', 'nested-nocheck', 'flat-kw', 'flat-tuple']


def gen_state(rng, dtype=None, family='std'):
    if family in ('dtype', 'mixed') and dtype is None:
        dtype = ['int8', 'int16', 'int32', 'float32', 'int', 'bool'][rint(rng, 0, 5)] if family == 'dtype' \
            else ['int', 'int32', 'int8', 'bool'][rint(rng, 0, 3)]
    if family.startswith('scale') and dtype is None:
        dtype = 'float' if family == 'scale-down' else ['int', 'float'][rint(rng, 0, 1)]
    dtype = dtype or ['int', 'float', 'int', 'float', 'bool'][rint(rng, 0, 4)]
    kind = KIND[np.dtype(DT[dtype]).kind]
    L = gen_lengths(rng)
    if family == 'all-empty':
        rows = [[] for _ in range(rint(rng, 1, 3))]
        return {'rows': rows, 'dtype': dtype, 'ctor': ['nested', 'flat', 'flat-np', 'nested-nocheck'][rint(rng, 0, 3)],
                'family': family}
    if family == 'empty-rows':
        L = [l if rng.random() < 0.6 else 0 for l in L] + [rint(rng, 1, 3)]
        rng.shuffle(L)
        L = [int(x) for x in L]
    rows = [gen_rowvals(rng, kind, l) for l in L]
    if family == 'scale-up':
        rows = [[x * 2 ** 20 if kind == 'int' else x * 2.0 ** 30 for x in r] for r in rows]
    if family == 'scale-down':
        rows = [[x * 2.0 ** -30 for x in r] for r in rows]
    ctors = [c for c in CTORS if not (family == 'empty-rows' and c == 'lists')]
    ctor = ctors[rint(rng, 0, len(ctors) - 1)]
    return {'rows': rows, 'dtype': dtype, 'ctor': ctor, 'family': family}


def gen_slice(rng, L, wild=0.2):
    def bound():
        if rng.random() < 0.3:
            return None
        if rng.random() < wild:
            return rint(rng, -(L + 2), L + 2)
        return rint(rng, 0, L)
    step = None
    u = rng.random()
    if u < wild:
        step = [-1, -2, -3, 2, 3][rint(rng, 0, 4)]
    elif u < wild + 0.15:
        step = [1, 2][rint(rng, 0, 1)]
    return [bound(), bound(), step]


def gen_index(rng, L, oob=0.06):
    if rng.random() < oob or L == 0:
        return [L, -L - 1, L + 1][rint(rng, 0, 2)]
    return rint(rng, -L, L - 1)


def shape_value(rng, kind, tg):
    """value for a scatter over `tg` (row-major groups): (v, vt, form)"""
    n = len(tg)
    u = rng.random()
    if u < 0.35 or n == 0:
        return gen_scalar(rng, kind), 'scalar', None
    if rng.random() < 0.06:
        k = n + [-1, 1][rint(rng, 0, 1)]            # wrong count (a single value would broadcast)
        if k >= 2:
            return gen_rowvals(rng, kind, k), 'flat', None
    vals = gen_rowvals(rng, kind, n)
    if u < 0.6:
        return vals, 'flat', None
    nested, cur, last = [], [], None
    for (r, c), x in zip(tg, vals):
        if last is not None and r != last:
            nested.append(cur)
            cur = []
        cur.append(x)
        last = r
    nested.append(cur)
    forms = ['ra', 'listarr', 'listlist']
    return nested, 'nested', forms[rint(rng, 0, 2)]


ARITH = {'int': ['add', 'sub', 'mul', 'floordiv', 'mod'],
         'float': ['add', 'sub', 'mul', 'truediv', 'floordiv', 'mod'],
         'bool': ['or', 'and', 'xor']}
CMP = ['eq', 'ne', 'lt', 'le', 'gt', 'ge']


def gen_operand(rng, spec, kind, f, scalar_only=False):
    if f in ('floordiv', 'mod'):
        pick = lambda: [1, 2, 3][rint(rng, 0, 2)]
    elif f == 'truediv':
        pick = lambda: [1, 2, 4, -2][rint(rng, 0, 3)]
    elif f == 'mul':
        pick = (lambda: [-1, 0, 1, 2][rint(rng, 0, 3)]) if kind == 'int' else \
            (lambda: [-1, 0, 1, 2, 0.5][rint(rng, 0, 4)])
    elif f in ('or', 'and', 'xor'):
        pick = lambda: bool(rint(rng, 0, 1))
    else:
        pick = lambda: gen_scalar(rng, kind)
    if scalar_only or rng.random() < 0.5:
        return pick()
    return [[pick() for _ in r] for r in spec.rows]


def arith_room(spec):
    """arithmetic operators whose result certainly stays inside the dtype (operands are < 10)"""
    kind = spec.kind
    fs = list(ARITH[kind])
    if kind == 'bool':
        return fs
    fl = np.concatenate(spec.rows)
    top = float(np.abs(fl.astype(np.float64)).max()) if fl.size else 0.0
    dt = fl.dtype
    lim = 1e4 if dt.itemsize == 8 else (float(np.iinfo(dt).max) / 2 if dt.kind in 'iu' else 2.0 ** 18)
    if top * 2.5 + 1 > lim:
        fs = [f for f in fs if f != 'mul']
    if dt.itemsize < 8 and top + 10 > lim:
        fs = [f for f in fs if f not in ('add', 'sub')]
    return fs


FAMILIES = {
    # name: options of the decoration of generated operations
    'std': {},
    'dtype': {'wrap': 0.35},                      # narrow array dtypes, numpy scalars / typed arrays as values, int32 indices
    'mixed': {'wrap': 0.25, 'mixed': 0.5},        # values of another kind than the array (upcast vs truncation)
    'scale-up': {'scale': 2.0 ** 30},
    'scale-down': {'scale': 2.0 ** -30},
    'empty-rows': {},
    'views': {'held': 0.8},                       # row views kept by the caller across in-place writes
    'idpool': {'idpool': 0.7},
    'all-empty': {'allempty': True},              # every row empty: append / row writes / operators on no cells                    # index ndarrays (with negative ids) re-used across structure changes
}


def _map_vals(v, f):
    if isinstance(v, list):
        return [_map_vals(x, f) for x in v]
    return f(v)


def _all_leaves(v):
    if isinstance(v, list):
        for x in v:
            yield from _all_leaves(x)
    else:
        yield v


def _reuse_ids(rng, op, mem, p):
    """with probability p replace the integer index lists of `op` by lists used earlier in the history
    (the ids AS WRITTEN, e.g. [-1, 0]: after an append `-1` is another row), and remember the new ones"""
    used = mem['ids']
    slots = []
    if op['k'] == 'setPaired' and op.get('pform', 'arr') == 'arr' and len(op['r']) == len(op['c']):
        slots = [('r', None), ('c', None)]
    for key in ('sel', 'r', 'c'):
        if isinstance(op.get(key), dict) and 'list' in op[key]:
            slots.append((key, 'list'))
    for key, sub in slots:
        cur = op[key][sub] if sub else op[key]
        same = [l for l in used if len(l) == len(cur)]
        if op['k'] == 'setRows' and len(op['v']) != len(cur):
            same = []       # (a single value row for several selected rows would be broadcast by numpy)
        if same and rng.random() < p:
            new = list(same[rint(rng, 0, len(same) - 1)])
            op['reused'] = True
            if sub:
                op[key][sub] = new
                op[key]['np'] = True
            else:
                op[key] = new
        else:
            used.append(list(cur))
    if op['k'] == 'setPaired' and rng.random() < 0.5:
        op['readfirst'] = True
    return op


def gen_op(rng, spec, kinds=None, fam=None, mem=None):
    """an operation of the grammar, decorated according to the input family"""
    fam = fam or {}
    if fam.get('idpool') and kinds is None and rng.random() < 0.6:
        kinds = ['setPaired', 'setPaired', 'set2d', 'setRows', 'append', 'setRow', 'appendFlat', 'iopAt']
    if fam.get('held') and kinds is None and rng.random() < 0.45:
        kinds = ['viewWrite', 'setElem', 'set2d', 'setPaired', 'setMask', 'iopAt', 'binop']
    if fam.get('allempty') and kinds is None:
        kinds = ['append', 'append', 'appendFlat', 'setRow', 'setRows', 'iop', 'binop', 'setMask', 'set2d', 'copyCtor']
    op = _gen_op(rng, spec, kinds)
    if op['k'] == 'append' and rng.random() < 0.04:
        op['v'], op['form'] = [], 'listarr'          # a.append([]) : IndexError from values[0]
    k = op['k']
    kind = spec.kind
    if k == 'viewWrite' and rng.random() < fam.get('held', 0.3):
        op['held'] = True
    # --- values of another kind / scale
    if fam.get('mixed') and kind == 'int' and k != 'iopAt' and rng.random() < fam['mixed']:
        bump = lambda x: (x + 0.5) if isinstance(x, int) and not isinstance(x, bool) else x
        for key in ('v', 'c_', 'o'):
            if key in op and not (key == 'c_' and op.get('f') in ('or', 'and', 'xor')):
                op[key] = _map_vals(op[key], bump)
    if fam.get('mixed') and kind == 'bool' and k in ('setElem', 'viewWrite', 'set2d', 'setMask', 'setRow') \
            and rng.random() < fam['mixed']:
        op['v'] = _map_vals(op['v'], lambda x: int(x) * 2 if isinstance(x, bool) else x)
    sc = fam.get('scale')
    if sc and kind in ('int', 'float') and 'v' in op:
        f = (lambda x: int(x * 2 ** 20)) if kind == 'int' else (lambda x: x * sc)
        op['v'] = _map_vals(op['v'], lambda x: f(x) if not isinstance(x, bool) else x)
    # --- containers / dtypes of values and indices
    w = fam.get('wrap', 0.04)
    if rng.random() < w:
        op['vw'] = ['np32', 'np64', '0d'][rint(rng, 0, 2)]
    if rng.random() < w:
        leaves = [x for key in ('v', 'o') if key in op for x in _all_leaves(op[key])]
        if leaves and not any(isinstance(x, bool) for x in leaves):
            if all(isinstance(x, int) for x in leaves):
                op['vdt'] = ['int8', 'int16', 'int32'][rint(rng, 0, 2)] if max(abs(x) for x in leaves) < 100 else 'int32'
            elif not sc:
                op['vdt'] = 'float32'
    if mem is not None:
        op = _reuse_ids(rng, op, mem, fam.get('idpool', 0.15))
    if rng.random() < w:
        op['iw'] = ['np32', 'np64'][rint(rng, 0, 1)]
        for key in ('sel', 'r', 'c'):
            if isinstance(op.get(key), dict) and 'list' in op[key]:
                op[key]['np32'] = True
    return op


def _gen_op(rng, spec, kinds=None):
    kind = spec.kind
    n = len(spec.rows)
    Ls = [len(r) for r in spec.rows]
    W = {'viewWrite': 1.2, 'setElem': 2, 'setRow': 2, 'setRows': 2, 'setIntSlice': 2, 'set2d': 4,
         'setPaired': 2, 'setMask': 2, 'append': 1.0, 'appendFlat': 0.3, 'iop': 2, 'iopAt': 1,
         'binop': 1.5, 'copyCtor': 0.4}
    kinds = kinds or list(W)
    p = np.array([W[k] for k in kinds], dtype=float)
    k = kinds[int(rng.choice(len(kinds), p=p / p.sum()))]
    if k in ('setElem', 'viewWrite'):
        i = gen_index(rng, n)
        L = Ls[i % n] if -n <= i < n else 3
        return {'k': k, 'i': i, 'j': gen_index(rng, L), 'v': gen_scalar(rng, kind)}
    if k == 'setRow':
        i = gen_index(rng, n)
        L = Ls[i % n] if -n <= i < n else 3
        if rng.random() < 0.3:
            L = rint(rng, 1, 5)
        return {'k': k, 'i': i, 'v': gen_rowvals(rng, kind, L), 'arr': bool(rint(rng, 0, 1))}
    if k == 'setRows':
        if rng.random() < 0.5:
            sel = {'slice': gen_slice(rng, n)}
        else:
            m = rint(rng, 1, min(n, 3))
            lst = [gen_index(rng, n, oob=0.03) for _ in range(m)]
            if len(set(x % n for x in lst)) < m:
                lst = sorted(set(x % n for x in lst))
            sel = {'list': lst, 'np': bool(rint(rng, 0, 1))}
        try:
            tg = spec._row_sel(sel)
        except SpecError:
            tg = [0]
        m = len(tg)
        if rng.random() < 0.06 and m >= 1:
            m2 = m + [-1, 1][rint(rng, 0, 1)]
            if m2 >= 2:
                m = m2
        u = rng.random()
        if u < 0.4:
            v = [gen_rowvals(rng, kind, Ls[tg[t]] if t < len(tg) else 2) for t in range(m)]
        elif u < 0.7:
            L = rint(rng, 1, 5)
            v = [gen_rowvals(rng, kind, L) for _ in range(m)]
        else:
            v = [gen_rowvals(rng, kind, rint(rng, 1, 5)) for _ in range(m)]
        forms = ['ra', 'listarr', 'listlist'] + (['arr2d'] if v and len(set(map(len, v))) == 1 else [])
        if not v:
            forms = ['listarr']
        return {'k': k, 'sel': sel, 'v': v, 'form': forms[rint(rng, 0, len(forms) - 1)]}
    if k == 'setIntSlice':
        i = gen_index(rng, n, oob=0.04)
        L = Ls[i % n] if -n <= i < n else 3
        s = gen_slice(rng, L, wild=0.35)
        cnt = len(range(L)[sl(s)])
        if rng.random() < 0.4 or cnt == 0:
            return {'k': k, 'i': i, 'sl': s, 'v': gen_scalar(rng, kind), 'vt': 'scalar'}
        if rng.random() < 0.06 and cnt >= 1:
            cnt += 1
        return {'k': k, 'i': i, 'sl': s, 'v': gen_rowvals(rng, kind, cnt), 'vt': 'flat'}
    if k in ('set2d', 'iopAt'):
        u = rng.random()
        if u < 0.75 or k == 'iopAt':
            r = {'slice': gen_slice(rng, n)}
        else:
            r = {'list': [gen_index(rng, n, oob=0.02) for _ in range(rint(rng, 1, 3))], 'np': bool(rint(rng, 0, 1))}
        Lmax, Lmin = max(Ls), min(Ls)
        u = rng.random()
        if 'list' in r or u < 0.55:
            c = {'slice': gen_slice(rng, Lmax)}
        elif u < 0.8:
            c = {'int': gen_index(rng, Lmin, oob=0.1)}
        else:
            c = {'list': [gen_index(rng, Lmin, oob=0.03) for _ in range(rint(rng, 1, 3))], 'np': bool(rint(rng, 0, 1))}
        if k == 'iopAt':
            fs3 = [f for f in ARITH[kind][:3] if f in arith_room(spec)] or ['floordiv' if kind != 'bool' else 'or']
            f = fs3[rint(rng, 0, len(fs3) - 1)]
            return {'k': k, 'r': r, 'c': c, 'f': f, 'c_': gen_operand(rng, spec, kind, f, scalar_only=True)}
        try:
            tg = spec.targets({'r': r, 'c': c})
        except SpecError:
            tg = [(0, 0)]
        v, vt, form = shape_value(rng, kind, tg)
        op = {'k': k, 'r': r, 'c': c, 'v': v, 'vt': vt}
        if form:
            op['form'] = form
        return op
    if k == 'setPaired':
        m = rint(rng, 1, 4)
        u = rng.random()
        ri = [gen_index(rng, n, oob=0.03) for _ in range(m)]
        ci = []
        for i in ri:
            L = Ls[i % n] if -n <= i < n else 1
            ci.append(gen_index(rng, L, oob=0.04))
        pform = 'arr'
        if u < 0.2:
            i = ri[0]
            L = Ls[i % n] if -n <= i < n else 1
            ri, ci, pform = [i], [gen_index(rng, L, oob=0.04) for _ in range(m)], 'int-arr'
        elif u < 0.4:
            ci, pform = [gen_index(rng, min(Ls), oob=0.04)], 'arr-int'
        t = max(len(ri), len(ci))
        op = {'k': k, 'r': ri, 'c': ci, 'pform': pform}
        R = ri * t if len(ri) == 1 else ri
        C = ci * t if len(ci) == 1 else ci
        cells = [(a_ % n, b_ % max(Ls[a_ % n], 1)) for a_, b_ in zip(R, C) if -n <= a_ < n]
        if rng.random() < 0.4 or len(set(cells)) < len(cells) or t == 1:
            op.update(v=gen_scalar(rng, kind), vt='scalar')
        else:
            cnt = t if rng.random() > 0.06 else t + 1
            op.update(v=gen_rowvals(rng, kind, cnt), vt='flat')
        return op
    if k == 'setMask':
        u = rng.random()
        if u < 0.12:
            mask = [[False] * l for l in Ls]
        elif u < 0.2:
            mask = [[True] * l for l in Ls]
        else:
            mask = [[bool(rint(rng, 0, 1)) for _ in range(l)] for l in Ls]
        cnt = sum(sum(m) for m in mask)
        if rng.random() < 0.5 or cnt == 0:
            return {'k': k, 'mask': mask, 'v': gen_scalar(rng, kind), 'vt': 'scalar'}
        if cnt >= 1 and rng.random() < 0.06:
            cnt += 1
        if cnt == 1:
            return {'k': k, 'mask': mask, 'v': gen_scalar(rng, kind), 'vt': 'scalar'}
        return {'k': k, 'mask': mask, 'v': gen_rowvals(rng, kind, cnt), 'vt': 'flat'}
    if k in ('append', 'appendFlat'):
        if n >= 7:
            return _gen_op(rng, spec, [x for x in kinds if x not in ('append', 'appendFlat')] or ['setElem'])
        if k == 'appendFlat':
            return {'k': k, 'v': gen_rowvals(rng, kind, rint(rng, 1, 4))}
        m = rint(rng, 1, 2)
        if rng.random() < 0.4:
            L = rint(rng, 1, 4)
            v = [gen_rowvals(rng, kind, L) for _ in range(m)]
        else:
            v = [gen_rowvals(rng, kind, rint(rng, 1, 4)) for _ in range(m)]
        return {'k': 'append', 'v': v, 'form': ['ra', 'listarr', 'listlist'][rint(rng, 0, 2)]}
    if k in ('iop', 'binop'):
        fs = arith_room(spec)
        if k == 'binop':
            fs = fs + CMP + (['invert'] if kind in ('bool', 'int') else [])
        f = fs[rint(rng, 0, len(fs) - 1)]
        if f == 'invert':
            return {'k': 'binop', 'f': f}
        o = gen_operand(rng, spec, kind, f)
        if isinstance(o, list):
            return {'k': k + '2', 'f': f, 'o': o}
        refl = f in ('add', 'sub', 'mul', 'eq', 'ne', 'lt', 'le', 'gt', 'ge') and rng.random() < 0.25
        return {'k': k, 'f': f, 'c_': o, 'refl': refl}
    if k == 'copyCtor':
        return {'k': k, 'viaFlat': bool(rint(rng, 0, 1)), 'np': bool(rint(rng, 0, 1))}
    raise KeyError(k)


# ================================================================== encoding for the driver
def is_np_left(op):
    """`c (+) a` with a numpy scalar / 0-d array c on the left"""
    return op['k'] in ('iop', 'binop') and bool(op.get('refl')) and op.get('vw') is not None


def lean_op(op, spec_before):
    """history op -> driver JSON (values as exact rationals)"""
    k = op['k']
    kind = spec_before.kind
    sd = spec_before.rows[0].dtype
    j = {'k': k}
    if k in ('setElem', 'viewWrite', 'setIntSlice', 'set2d', 'setPaired', 'setMask'):
        # numpy casts what is written INTO existing cells to the array's dtype (float -> int truncates)
        def cast(x):
            return np.asarray(x).astype(sd)[()]
        op = dict(op)
        v = op['v']
        if isinstance(v, list):
            op['v'] = [[cast(x) for x in r] if isinstance(r, list) else cast(r) for r in v]
        else:
            op['v'] = cast(v)
    if k in ('setElem', 'viewWrite'):
        j.update(i=op['i'], j=op['j'], v=q(op['v']))
    elif k == 'setRow':
        j.update(i=op['i'], v=[q(x) for x in op['v']])
    elif k == 'setRows':
        j.update(sel=_sel(op['sel']), v=[[q(x) for x in r] for r in op['v']], form=op['form'])
    elif k == 'setIntSlice':
        j.update(i=op['i'], sl=op['sl'], **_val(op))
    elif k == 'set2d':
        j.update(r=_sel(op['r']), c=_sel(op['c']), **_val(op))
    elif k == 'setPaired':
        j.update(r=op['r'], c=op['c'], **_val(op))
    elif k == 'setMask':
        j.update(mask=op['mask'], **_val(op))
    elif k == 'append':
        j.update(v=[[q(x) for x in r] for r in op['v']], form=op['form'])
    elif k == 'appendFlat':
        j.update(v=[q(x) for x in op['v']])
    elif k in ('iop', 'binop') and is_np_left(op):
        j.update(k='npLeft', f=op['f'], s=q(op['c_']), refl=True, rebind=(k == 'iop'))
    elif k in ('iop', 'binop', 'iopAt'):
        if op['f'] == 'invert':
            j.update(f='invert-bool' if kind == 'bool' else 'invert-int')
        else:
            j.update(f=op['f'], s=q(op['c_']), refl=bool(op.get('refl')))
        if k == 'iopAt':
            j.update(r=_sel(op['r']), c=_sel(op['c']))
    elif k in ('iop2', 'binop2'):
        j.update(f=op['f'], o=[[q(x) for x in r] for r in op['o']])
    elif k == 'copyCtor':
        j.update(viaFlat=op['viaFlat'], np=op['np'])
    else:
        raise KeyError(k)
    return j


def _sel(s):
    if 'slice' in s:
        return {'slice': s['slice']}
    if 'int' in s:
        return {'int': s['int']}
    return {'list': s['list']}


def _val(op):
    vt = op['vt']
    if vt == 'scalar':
        return {'vt': 'scalar', 'v': q(op['v'])}
    if vt == 'flat':
        return {'vt': 'flat', 'v': [q(x) for x in op['v']]}
    return {'vt': 'nested', 'v': [[q(x) for x in r] for r in op['v']]}


# ================================================================== one history
class Step:
    __slots__ = ('op', 'spec_before', 'spec_after', 'serr', 'rerr', 'o_real', 'o_spec', 'res_real', 'res_spec',
                 'dev', 'extra', 'lean', 'st_before', 'ctor_before')


def exact(spec):
    """all values finite, exactly representable and far from the dtype's limits (no wrap-around /
    rounding can have happened): only then the exact-rational Lean model is compared"""
    for r in spec.rows:
        if not r.size:
            continue
        if r.dtype.kind == 'f':
            if not np.all(np.isfinite(r)):
                return False
            lim = 2.0 ** 50 if r.dtype.itemsize == 8 else 2.0 ** 20
            if np.abs(r).max() > lim:
                return False
        elif r.dtype.kind in 'iu':
            if np.abs(r.astype(np.float64)).max() > np.iinfo(r.dtype).max / 2:
                return False
    return True


REINIT = ('setRow', 'setRows', 'setIntSlice', 'append', 'appendFlat', 'iop', 'iop2', 'copyCtor')


def run_history(st, ops_or_gen, rng=None, nsteps=None, kinds=None, fam=None, light=False):
    """executes a history on the real code and on the oracle; returns (init record, [Step])"""
    light = light or bool(st.get('light'))
    spec = Spec(st['rows'], dtype=DT[st['dtype']])
    keep = []
    with warnings.catch_warnings():
        warnings.simplefilter('ignore')
        a = build_real(st['rows'], st['dtype'], st['ctor'], keep)
    src_snap = [x.tobytes() if not isinstance(x, list) else repr(x) for x in keep]
    init = {'o_real': observe_real(a, light), 'o_spec': observe_rows(spec.rows, light), 'alias': None}
    if not any(len(r_) for r_ in spec.rows):
        init['o_spec'].pop('shape', None)
    steps = []
    ctor = st['ctor']
    views = {}          # row views the caller holds on to (taken by earlier viewWrite steps)
    pool = {}           # index ndarrays the caller keeps and re-uses (keyed by the ids as written)
    mem = {'ids': []}   # id lists used so far in this history (the generator re-uses them)
    t = 0
    while True:
        if nsteps is not None:
            if t >= nsteps:
                break
            op = gen_op(rng, spec, kinds, fam, mem)
        else:
            if t >= len(ops_or_gen):
                break
            op = ops_or_gen[t]
        t += 1
        S = Step()
        S.op, S.spec_before, S.extra, S.ctor_before = op, spec, [], ctor
        mop = mat(op, spec.rows[0].dtype)
        s2 = spec.copy()
        S.res_spec = None
        try:
            with np.errstate(all='ignore'):
                S.res_spec = s2.apply(mop)
            S.serr = None
        except SpecError as e:
            S.serr, s2 = str(e) + '-error', spec
        except (ValueError, IndexError, TypeError, OverflowError) as e:
            S.serr, s2 = 'value-error', spec
        before = snapshot(a)
        S.res_real = None
        aux = {'vals': [], 'views': views, 'pool': pool, 'idx': [], 'read': None}
        try:
            with warnings.catch_warnings():
                warnings.simplefilter('ignore')
                with np.errstate(all='ignore'):
                    box = []
                    a2, res = apply_real(a, mat(op, spec.rows[0].dtype), box, aux)
            S.rerr = None
        except Exception as e:  # noqa
            S.rerr, a2, res = errclass(e), a, None
        S.o_real = observe_real(a2, light)
        S.o_spec = observe_rows(s2.rows, light)
        if not any(len(r_) for r_ in s2.rows):
            # `.shape` (a read attribute, property C05) looks at `_data[0]`: not defined without cells
            S.o_spec.pop('shape', None)
        # ---- index objects are operands too: they must come back exactly as they were handed over
        for obj_, snap_, ids_ in aux['idx']:
            if snap_index(obj_) != snap_:
                S.extra.append('the index object %s handed to the array was changed by the call'
                               % (ids_ if isinstance(ids_, str) else 'for ids %s' % (ids_,)))
                break
        if S.extra:
            pool.clear()            # the caller's arrays are spoiled: start over with fresh ones
        # ---- a[(rows, cols)] read through the same index objects, before the write
        if aux['read'] is not None and S.serr is None:
            try:
                want_ = [spec.rows[r_][c_] for r_, c_ in spec.paired(mop)]
                if [cs(x) for x in aux['read']] != [cs(x) for x in want_]:
                    S.extra.append('a[(rows, cols)] read cells other than rows[r][c]')
            except SpecError:
                pass
        # ---- values handed to the array are copied: changing them afterwards must not reach the array
        if S.rerr is None and aux['vals']:
            for x in aux['vals']:
                poke(x)
            C1, CR = (crow_l, crows_l) if light else (crow, crows)
            if C1(a2._data) != S.o_real['_data'] or CR(list(a2._array)) != S.o_real['_array']:
                S.extra.append('changing the assigned/appended value object afterwards changed the array')
        # ---- row views held across in-place writes keep showing (and writing) the row
        if S.rerr is None and op['k'] in REINIT:
            views.clear()       # documented: a re-built array has new storage
        elif S.rerr is None:
            for r_, view_ in list(views.items()):
                if r_ < len(s2.rows) and (crow_l if light else crow)(view_) != S.o_spec['rows'][r_]:
                    S.extra.append('a row view taken earlier (row = a[%d]) no longer shows the row' % r_)
                    break
        # ---- purity of operators / rejected operations
        if op['k'] in ('binop', 'binop2') and S.rerr is None:
            S.res_real = observe_real(res, light)
            if res is a2:
                S.extra.append('operator returned its operand')
            if snapshot(a2) != before:
                S.extra.append('operator changed its operand')
            if np.shares_memory(res._data, a2._data) and res._data.dtype != object:
                S.extra.append('operator result shares memory with its operand')
            try:                       # writing to the result (also through a slice of it) must not reach the operand
                res[0, 0] = res[0, 0]
                part = res[0:1]
                part[0, 0] = part[0, 0]
                res._data[...] = res._data[::-1].copy()
                poke(part)
            except Exception:  # noqa
                pass
            if snapshot(a2) != before:
                S.extra.append('writing to an operator result changed the operand')
        if op['k'] in ('iop', 'iop2') and S.rerr is None:
            if a2 is a:
                S.extra.append('augmented arithmetic rebinding returned the same object')
            if snapshot(a) != before:
                S.extra.append('a = a (+) b changed the old object')
        if S.rerr is None and op['k'] in ('iop2', 'binop2'):
            for o_, snap_ in box:
                if snapshot(o_) != snap_:
                    S.extra.append('operator changed its right operand')
                if res is o_ or a2 is o_:
                    S.extra.append('operator returned its right operand')
        if S.rerr is not None and snapshot(a) != before:
            S.extra.append('rejected operation changed the array')
        # the caller's construction data must never be written
        now = [x.tobytes() if not isinstance(x, list) else repr(x) for x in keep]
        if now != src_snap:
            S.extra.append("the caller's source data changed")
            src_snap = now
        S.dev = bool((S.serr is None) != (S.rerr is None) or diff(S.o_real, S.o_spec) or S.extra
                     or (S.res_real is not None and S.res_spec is not None
                         and diff(S.res_real, observe_rows(S.res_spec, light),
                                  [k for k in OBS if k not in ('objdtype',)
                                   and not (k == 'shape' and not any(len(r_) for r_ in S.res_spec))])))
        S.spec_after = s2
        steps.append(S)
        spec = s2
        if S.dev:
            # continue the history from the oracle's state
            ctor = 'nested'
            keep = []
            views.clear()
            pool.clear()
            a = build_real([r.tolist() for r in spec.rows], spec.dtname, 'nested', keep)
            src_snap = [x.tobytes() for x in keep]
        else:
            a = a2
            if op['k'] == 'copyCtor' and S.rerr is None:
                ctor = 'copy'
    return init, steps


def history_request(cfg, st, steps):
    """driver request replaying the same history (resync where the harness resynced)"""
    ops = []
    for S in steps:
        try:
            ops.append(lean_op(S.op, S.spec_before))
        except ValueError:
            return None
        if S.dev:
            rows_after = S.o_spec['rows']
            ops.append({'k': 'resync', 'rows': [[q(x) for x in r] for r in rows_after]})
    rows = [[q(x) for x in np.array(r, dtype=DT[st['dtype']])] for r in st['rows']]
    ctor = {'nested-nocheck': 'nested', 'flat-kw': 'flat-np', 'flat-tuple': 'flat'}.get(st['ctor'], st['ctor'])
    return {'op': 'C06.run', 'cfg': cfg, 'init': {'rows': rows, 'ctor': ctor}, 'ops': ops}


MODEL_KEYS = ['lengths', 'starts', 'len', 'rows', '_array', 'flat', '_data', 'elems', 'iter', 'size',
              'max', 'min', 'all', 'any', 'objdtype']


def judge(ctx, st, steps, resp, cfg, tags=()):
    """classification of every step of one history (after the driver answered)"""
    msteps = [x for x in (resp['ok']['steps'] if resp and 'ok' in resp else []) if 'resync' not in x]
    model_lost = False      # the model's state left the real one earlier in this history (no re-sync yet)
    for t, S in enumerate(steps):
        op = S.op
        M = msteps[t] if t < len(msteps) and not model_lost else None
        replay = {'init': st, 'ops': [s.op for s in steps[:t + 1]]}
        big = bool(st.get('light'))
        if big:
            single = replay
            rows_rec = ['big', len(S.spec_before.rows), int(sum(len(r) for r in S.spec_before.rows)), t]
        else:
            rows_rec = jsonable(crows(S.spec_before.rows))
            single = {'init': {'rows': rows_rec, 'dtype': S.spec_before.dtname,
                               'ctor': S.ctor_before if S.ctor_before in CTORS else 'nested'},
                      'ops': [op]}
        nontrivial = S.serr is None
        ctx.case({'rows': rows_rec, 'op': jsonable(op) if not big else op['k']}, nontrivial=nontrivial,
                 tags=['op=' + op['k'], 'rect' if is_rect(S.spec_before) else 'ragged',
                       'dtype=' + S.spec_before.dtname, 'oracle-rejects' if S.serr else 'oracle-accepts']
                 + [t_ for t_ in ('value-wrapper=%s' % op.get('vw') if op.get('vw') else None,
                                  'value-dtype=%s' % op.get('vdt') if op.get('vdt') else None,
                                  'index-wrapper=%s' % op.get('iw') if op.get('iw') else None,
                                  'held-view' if op.get('held') else None,
                                  'index-ids-reused' if op.get('reused') else None,
                                  'read-before-write' if op.get('readfirst') else None,
                                  'ctor=' + str(st.get('ctor')) if t == 0 else None,
                                  'value-kind-differs' if _kind_differs(op, S.spec_before) else None) if t_]
                 + list(tags))
        # ---- model vs real
        model_agrees = None
        if M is not None:
            mm = M['model']
            if 'err' in mm:
                if mm['err'] == 'garbled':
                    model_agrees = S.rerr is None and 'NESTED' in repr(S.o_real.get('_data'))
                elif mm['err'] == 'empty-array':      # the call returns an object without `_data`
                    model_agrees = S.rerr is None and (S.o_real.get('_data') == 'EXC:AttributeError'
                                                       or S.o_real.get('lengths') == [])
                else:
                    model_agrees = (S.rerr == mm['err'])
            else:
                om = observe_model(mm['state'])
                model_agrees = S.rerr is None and not diff(S.o_real, om, MODEL_KEYS)
                if model_agrees and S.res_real is not None:
                    model_agrees = mm.get('out') is not None and \
                        not diff(S.res_real, observe_model(mm['out']), [k for k in MODEL_KEYS if k != 'objdtype'])
            # ---- Lean spec vs Python oracle
            sp = M['spec']
            if 'err' in sp:
                spec_agrees = S.serr is not None and (S.serr == sp['err'] or S.serr == 'value-error')
            else:
                spec_agrees = S.serr is None and [[unq(x) for x in r] for r in sp['rows']] == S.o_spec['rows']
                if spec_agrees and S.res_spec is not None:
                    spec_agrees = sp.get('out') is not None and \
                        [[unq(x) for x in r] for r in sp['out']] == crows(S.res_spec)
            if not spec_agrees:
                ctx.disagreement('Lean specStep and the Python list-of-rows oracle differ on %s' % op['k'],
                                 dict(single, lean_spec=jsonable(sp), oracle_err=S.serr))
        # ---- real vs oracle: the property
        if S.dev:
            key = classify(op, S.spec_before)
            if key is not None and model_agrees is False:
                key = None      # not the deviation the model of the known defect predicts
            what = describe(S)
            ctx.violation(what, minimal(single, replay, what), key=key)
            if key:
                ctx.tag('class:' + key)
        if model_agrees is False:
            model_lost = True
        if S.dev:
            model_lost = False      # model and real object are both rebuilt from the oracle's rows
        if (not S.dev) and model_agrees is False:
            ctx.disagreement('Ens.RaggedW.step and RaggedArray differ on %s (cfg %s)' % (op['k'], cfg),
                             dict(replay, model=jsonable(M['model'] if 'err' in M['model'] else 'state'),
                                  real_err=S.rerr))


def _kind_differs(op, spec):
    k_ = spec.kind
    for key in ('v', 'c_', 'o'):
        if key in op:
            for x in _all_leaves(op[key]):
                xk = 'bool' if isinstance(x, bool) else 'int' if isinstance(x, int) else 'float'
                if xk != k_:
                    return True
    return False


def describe(S):
    op = S.op
    if S.extra:
        return '%s: %s' % (op['k'], '; '.join(S.extra))
    if (S.serr is None) != (S.rerr is None):
        if S.rerr:
            return '%s raised %s where the list-of-rows model performs the operation' % (op['k'], S.rerr)
        return '%s was accepted where the list-of-rows model rejects it (%s)' % (op['k'], S.serr)
    d = diff(S.o_real, S.o_spec)
    if d:
        return 'after %s the observers %s disagree with the list-of-rows model' % (op['k'], d[:6])
    return '%s: operator result differs from the element-wise result on the rows' % op['k']


def minimal(single, replay, what):
    """prefer the one-step reproduction from the oracle state when it shows the same failure"""
    if len(replay['ops']) == 1:
        return replay
    for ctor in (single['init']['ctor'], 'nested', 'flat-np'):
        try:
            cand = {'init': dict(single['init'], ctor=ctor), 'ops': single['ops']}
            _, steps = run_history(cand['init'], cand['ops'])
            if steps and steps[0].dev and describe(steps[0]) == what:
                return cand
        except Exception:  # noqa
            pass
    return replay


def process(ctx, cfg, batch, tags=()):
    """batch = [(st, steps)] -> one driver call -> judgements"""
    reqs, where = [], []
    for n, (st, init, steps) in enumerate(batch):
        d = diff(init['o_real'], init['o_spec'])
        if d:
            ctx.violation('constructor: observers %s disagree with the rows given' % d[:6],
                          {'init': st, 'ops': []}, key=None)
        if st.get('nolean'):
            ctx.tag('model-skipped-big', len(steps))
            where.append(None)
            continue
        if not all(exact(S.spec_before) and exact(S.spec_after) for S in steps):
            ctx.skip('history left the exactly representable range (no Lean comparison)')
            where.append(None)
            continue
        r = history_request(cfg, st, steps)
        if r is None:
            ctx.skip('non-numeric value in history (no Lean comparison)')
            where.append(None)
            continue
        where.append(len(reqs))
        reqs.append(r)
    resp = ctx.driver(reqs) if reqs else []
    for (st, init, steps), w in zip(batch, where):
        R = resp[w] if w is not None else None
        if R is not None and 'ok' in R:
            om = observe_model(R['ok']['init'])
            if diff(init['o_real'], om, MODEL_KEYS):
                ctx.disagreement('Ens.RaggedW constructor and RaggedArray differ (%s)' % st['ctor'], {'init': st, 'ops': []})
        elif R is not None:
            ctx.disagreement('Ens.RaggedW constructor failed: %s' % R, {'init': st, 'ops': []})
            R = None
        judge(ctx, st, steps, R, cfg, tags)


# ================================================================== exhaustive small scope
def small_scope(thorough):
    """(state, op) pairs: every single write of a small grammar on small arrays"""
    shapes = [[2], [1, 2], [2, 2], [1, 2, 1]]
    if thorough:
        shapes += [[1], [3], [1, 1], [2, 1], [3, 1], [3, 3], [2, 2, 2], [1, 3, 2], [3, 3, 3], [2, 3, 2, 3]]
    ctors = ['nested', 'flat-np'] + (['lists', 'flat'] if thorough else [])
    bnd = [None, -3, -1, 0, 1, 2, 4] if not thorough else [None, -4, -3, -1, 0, 1, 2, 3, 4]
    steps_ = [None, 2, -1] if not thorough else [None, 1, 2, -1, -2]
    slices = [[a, b, c] for a in bnd for b in bnd for c in steps_]
    for L in shapes:
        n = len(L)
        base = 10
        rows = []
        for l in L:
            rows.append(list(range(base, base + l)))
            base += 10
        for ctor in ctors:
            st = {'rows': rows, 'dtype': 'int', 'ctor': ctor}
            ops = []
            for i in range(-n - 1, n + 1):
                for j in range(-max(L) - 1, max(L) + 1):
                    ops.append({'k': 'setElem', 'i': i, 'j': j, 'v': 7})
                    ops.append({'k': 'viewWrite', 'i': i, 'j': j, 'v': 7})
                for m in (1, 2, 3):
                    ops.append({'k': 'setRow', 'i': i, 'v': list(range(1, m + 1)), 'arr': bool(m % 2)})
                for s in slices[::3] if not thorough else slices[::2]:
                    ops.append({'k': 'setIntSlice', 'i': i, 'sl': s, 'v': 7, 'vt': 'scalar'})
            sels = [{'slice': s} for s in (slices[::2] if not thorough else slices)] + \
                   [{'list': l, 'np': False} for l in ([0], [-1], [0, n - 1], [n - 1, 0])]
            seen = set()
            for sel in sels:
                try:
                    tg = list(range(n))[sl(sel['slice'])] if 'slice' in sel else [x % n for x in sel['list']]
                except ValueError:
                    continue
                keyt = (tuple(tg), 'slice' in sel)
                if keyt in seen:
                    continue
                seen.add(keyt)
                m = len(tg)
                shapes_v = [[L[t] for t in tg], [1] * m, [2] * m, [3] * m, [1 + (t % 2) for t in range(m)]]
                for sv in shapes_v:
                    v = [list(range(1 + 5 * t, 1 + 5 * t + l)) for t, l in enumerate(sv)]
                    forms = ['ra', 'listarr', 'listlist'] + (['arr2d'] if v and len(set(sv)) == 1 else [])
                    if not v:
                        forms = ['listarr']
                    for form in forms:
                        ops.append({'k': 'setRows', 'sel': sel, 'v': v, 'form': form})
            csels = [{'slice': s} for s in slices] + [{'int': j} for j in range(-max(L) - 1, max(L) + 1)] + \
                    [{'list': [0, -1], 'np': True}]
            rsels = [{'slice': s} for s in (slices[::7] if not thorough else slices[::23])] + [{'list': [0, -1], 'np': True}]
            if thorough and ctor in ('lists', 'flat'):
                rsels = rsels[::4]
            for r in rsels:
                for c in csels:
                    if 'list' in r and 'slice' not in c:
                        continue
                    ops.append({'k': 'set2d', 'r': r, 'c': c, 'v': 7, 'vt': 'scalar'})
            for c in csels[::7]:
                ops.append({'k': 'iopAt', 'r': {'slice': [None, None, None]}, 'c': c, 'f': 'add', 'c_': 100})
            total = sum(L)
            if total <= 5:
                for bits in itertools.product([False, True], repeat=total):
                    mask, p = [], 0
                    for l in L:
                        mask.append(list(bits[p:p + l]))
                        p += l
                    ops.append({'k': 'setMask', 'mask': mask, 'v': 7, 'vt': 'scalar'})
            for sv in ([1], [2], [L[0]], [1, 2], [2, 2]):
                v = [list(range(1, l + 1)) for l in sv]
                for form in ('ra', 'listarr', 'listlist'):
                    ops.append({'k': 'append', 'v': v, 'form': form})
            ops.append({'k': 'appendFlat', 'v': [1, 2]})
            ops.append({'k': 'appendFlat', 'v': [1] * L[0]})
            yield st, ops


# ================================================================== aliasing probes
def aliasing_probes(ctx, rng, count):
    for _ in range(count):
        st = gen_state(rng)
        rows = st['rows']
        form = ['arrays', 'ndarray2d', 'flat', 'flat-np', 'ra-array', 'ra-rows'][rint(rng, 0, 5)]
        if form == 'ndarray2d':
            L = len(rows[0])
            rows = [(r * L)[:L] for r in rows]
        aliasing_probe(ctx, {'alias': form, 'rows': rows, 'dtype': st['dtype']})


def aliasing_probe(ctx, case):
    """build by copy, mutate the source, mutate the array: no cross-talk in either direction"""
    from enspara import ra
    if True:
        form, rows = case['alias'], case['rows']
        st = case
        dt = DT[case['dtype']]
        want = crows([np.array(r, dtype=dt) for r in rows])
        with warnings.catch_warnings():
            warnings.simplefilter('ignore')
            if form == 'arrays':
                src = [np.array(r, dtype=dt) for r in rows]
                a = ra.RaggedArray(src)
                srcs = src
            elif form == 'ndarray2d':
                src = np.array(rows, dtype=dt)
                a = ra.RaggedArray(src)
                srcs = [src]
            elif form in ('flat', 'flat-np'):
                src = np.concatenate([np.array(r, dtype=dt) for r in rows])
                L = [len(r) for r in rows]
                a = ra.RaggedArray(src, lengths=np.array(L) if form == 'flat-np' else L)
                srcs = [src]
            else:
                b = ra.RaggedArray([np.array(r, dtype=dt) for r in rows])
                a = ra.RaggedArray(b._array if form == 'ra-array' else [b[i] for i in range(len(b))])
                srcs = [b._data]
        ctx.case(case, nontrivial=True, tags=['alias=' + form])
        # 1. mutate the source: the array must not move
        for s_ in srcs:
            s_[...] = ~s_ if s_.dtype == bool else s_ + 1000
        if crows([a[i] for i in range(len(a))]) != want or crow(a.flatten()) != [x for r in want for x in r]:
            ctx.violation('RaggedArray built by copy (%s) changed when the source was modified' % form, case)
            return
        snap = [s_.tobytes() for s_ in srcs]
        # 2. mutate the array through every writer family: the source must not move
        try:
            a[0, 0] = a[0, 0]
            a[0] = list(a[0])
            a[:, 0] = 0 if st['dtype'] != 'bool' else False
            a[a == a] = 1 if st['dtype'] != 'bool' else True
            r0 = a[0]
            r0[...] = 0
        except Exception:  # noqa
            pass
        if [s_.tobytes() for s_ in srcs] != snap:
            ctx.violation('writing to a RaggedArray built by copy (%s) changed the source' % form, case)


# ---- object reuse: results of reads / operators written to, one value object assigned twice,
# ---- appended source mutated afterwards
REUSE_FORMS = ['row-slice', 'row-list', 'col-slice', 'op-result', 'op-result-slice', 'mask-read',
               'same-value-twice', 'same-ra-two-arrays', 'append-then-mutate-source']


def reuse_probes(ctx, rng, count):
    for _ in range(count):
        st = gen_state(rng, dtype=['int', 'float', 'int32', 'bool'][rint(rng, 0, 3)])
        rows = st['rows']
        if len(rows) < 2:
            rows = rows + [list(rows[0])]
        reuse_probe(ctx, {'reuse': REUSE_FORMS[rint(rng, 0, len(REUSE_FORMS) - 1)], 'rows': rows,
                          'dtype': st['dtype']})


def reuse_probe(ctx, case):
    from enspara import ra
    form, rows, dt = case['reuse'], case['rows'], DT[case['dtype']]
    is_bool = case['dtype'] == 'bool'
    one = True if is_bool else 1

    def mk():
        return ra.RaggedArray([np.array(r, dtype=dt) for r in rows])

    def same(x, want):
        return crows([x[i] for i in range(len(x))]) == want and crow(x._data) == [y for r in want for y in r]

    want = crows([np.array(r, dtype=dt) for r in rows])
    ctx.case(case, nontrivial=True, tags=['reuse=' + form])
    with warnings.catch_warnings():
        warnings.simplefilter('ignore')
        a = mk()
        try:
            if form in ('row-slice', 'row-list', 'col-slice', 'op-result', 'op-result-slice', 'mask-read'):
                c = {'row-slice': lambda: a[0:2], 'row-list': lambda: a[[0, -1]], 'col-slice': lambda: a[:, 0:1],
                     'op-result': lambda: (a == a) if is_bool else (a + 0),
                     'op-result-slice': lambda: ((a == a) if is_bool else (a * 1))[0:1],
                     'mask-read': lambda: a[a == a]}[form]()
                c0 = crows([c[i] for i in range(len(c))]) if form != 'mask-read' else crow(c)
                # write to the derived object through every writer family
                if form == 'mask-read':
                    poke(c)
                else:
                    c[0, 0] = not c[0, 0] if is_bool else c[0, 0] + 5
                    c[0] = list(c[0])
                    c[:, 0] = one
                    r0 = c[0]
                    r0[...] = one
                    poke(c)
                if not same(a, want):
                    ctx.violation('writing to the result of a read/operator (%s) changed the array it came from' % form, case)
                    return
                # and the other way round
                if form != 'mask-read':
                    c = {'row-slice': lambda: a[0:2], 'row-list': lambda: a[[0, -1]], 'col-slice': lambda: a[:, 0:1],
                         'op-result': lambda: (a == a) if is_bool else (a + 0),
                         'op-result-slice': lambda: ((a == a) if is_bool else (a * 1))[0:1]}[form]()
                    c0 = crows([c[i] for i in range(len(c))])
                    a[0, 0] = not a[0, 0] if is_bool else a[0, 0] + 5
                    a[:, 0] = one
                    poke(a)
                    if crows([c[i] for i in range(len(c))]) != c0:
                        ctx.violation('writing to an array changed an earlier result (%s) of it' % form, case)
            elif form == 'same-value-twice':
                L = len(rows[0])
                rows2 = [rows[0], list(rows[0])] + rows[2:]
                a = ra.RaggedArray([np.array(r, dtype=dt) for r in rows2])
                v = np.array([one] * L, dtype=dt)
                v0 = v.copy()
                a[0] = v
                a[1] = v
                a[0, 0] = (not one) if is_bool else 9
                if crow(a[1]) != crow(v0) or crow(v) != crow(v0):
                    ctx.violation('one value object assigned to two rows: writing one row changed the other row or the value', case)
                    return
                snap = crows([a[i] for i in range(len(a))])
                poke(v)
                if crows([a[i] for i in range(len(a))]) != snap:
                    ctx.violation('one value object assigned to two rows: changing the value changed the array', case)
            elif form == 'same-ra-two-arrays':
                b = mk()
                r = ra.RaggedArray([np.array(rows[0], dtype=dt), np.array(rows[1], dtype=dt)])
                r0 = snapshot(r)
                a[0:2] = r
                b[0:2] = r
                a[0, 0] = (not a[0, 0]) if is_bool else a[0, 0] + 5
                poke(a)
                if snapshot(r) != r0 or not same(b, want):
                    ctx.violation('one RaggedArray assigned into two arrays: writing one changed the value or the other', case)
                    return
                poke(r)
                if not same(b, want):
                    ctx.violation('one RaggedArray assigned into two arrays: changing the value changed an array', case)
            elif form == 'append-then-mutate-source':
                r = ra.RaggedArray([np.array(rows[0], dtype=dt)])
                src = [np.array(rows[1], dtype=dt)]
                a.append(r)
                a.append(src)
                want2 = want + [want[0], want[1]]
                poke(r)
                poke(src)
                r[0, 0] = one
                if not same(a, want2):
                    ctx.violation('changing an appended RaggedArray / list of arrays afterwards changed the array', case)
                    return
                r1, s1 = snapshot(r), [x.tobytes() for x in src]
                a[-1, 0] = one
                a[-2] = list(a[-2])
                poke(a)
                if snapshot(r) != r1 or [x.tobytes() for x in src] != s1:
                    ctx.violation('writing to the array changed a RaggedArray / list of arrays appended earlier', case)
        except Exception as e:  # noqa
            ctx.violation('object-reuse probe %s raised %s' % (form, type(e).__name__), case)


# ---- size boundaries: >= 256 rows, rows longer than 255 cells, more than 65535 cells / rows
def big_states(rng, thorough):
    def vals(n):
        return [int(x) for x in rng.integers(-9, 10, size=n)]
    out = [[vals(rint(rng, 1, 3)) for _ in range(300)],                       # 300 short rows
           [vals(2), vals(300), vals(1), vals(257)],                            # rows longer than 255
           [vals(260) for _ in range(258)]]                                     # equal-length, 67080 cells
    if thorough:
        out += [[vals(1) for _ in range(20001)],                                # beyond the error-checking limit
                [vals(rint(rng, 1, 2)) for _ in range(65600)],                  # more than 65535 rows
                [vals(70000), vals(3)]]                                         # one row longer than 65535
    return out


def big_histories(ctx, cfg, rng):
    kinds = ['viewWrite', 'setElem', 'setRow', 'setRows', 'setIntSlice', 'set2d', 'setPaired', 'setMask',
             'append', 'iop', 'iopAt', 'binop', 'copyCtor']
    batch = []
    for rows in big_states(rng, ctx.thorough):
        ctor = ['nested', 'flat-np', 'flat', 'nested-nocheck'][rint(rng, 0, 3)]
        st = {'rows': rows, 'dtype': 'int', 'ctor': ctor, 'family': 'big', 'light': True, 'nolean': True}
        # two forced writes beyond the 255/256 boundaries, then random operations
        n, Lm = len(rows), max(len(r) for r in rows)
        forced = []
        if n > 257:
            forced += [{'k': 'setElem', 'i': 256, 'j': 0, 'v': 77}, {'k': 'setRow', 'i': 257, 'v': [5] * len(rows[257])},
                       {'k': 'set2d', 'r': {'slice': [250, 260, None]}, 'c': {'int': 0}, 'v': 3, 'vt': 'scalar'}]
        if Lm > 257:
            i = max(range(n), key=lambda t: len(rows[t]))
            forced += [{'k': 'setElem', 'i': i, 'j': 256, 'v': 78}, {'k': 'viewWrite', 'i': i, 'j': 257, 'v': 79},
                       {'k': 'setIntSlice', 'i': i, 'sl': [254, 258, None], 'v': [1, 2, 3, 4], 'vt': 'flat'}]
        init, steps = run_history(st, forced)
        batch.append((st, init, steps))
        init, steps = run_history(st, None, rng=rng, nsteps=ctx.n(4, 8), kinds=kinds)
        batch.append((st, init, steps))
    process(ctx, cfg, batch, tags=['big'])


# ================================================================== entry points
QUICK_FAMILIES = [('std', 330), ('dtype', 90), ('mixed', 90), ('views', 50), ('idpool', 70), ('all-empty', 30), ('empty-rows', 40),
                  ('scale-up', 20), ('scale-down', 20)]
THOROUGH_FAMILIES = [('std', 3600), ('dtype', 1200), ('mixed', 1200), ('views', 600), ('idpool', 500), ('all-empty', 300), ('empty-rows', 500),
                     ('scale-up', 250), ('scale-down', 250)]


def run(ctx):
    cfg = enforce_variant(ctx)
    rng = ctx.rng
    # 1. exhaustive small scope of single writes
    batch = []
    for st, ops in small_scope(ctx.thorough):
        for op in ops:
            init, steps = run_history(st, [op])
            batch.append((st, init, steps))
            if len(batch) >= 4000:
                process(ctx, cfg, batch, tags=['scope'])
                batch = []
    process(ctx, cfg, batch, tags=['scope'])
    # 2. random histories, by input family
    for family, count in (THOROUGH_FAMILIES if ctx.thorough else QUICK_FAMILIES):
        batch = []
        for _ in range(count):
            st = gen_state(rng, family=family)
            init, steps = run_history(st, None, rng=rng, nsteps=rint(rng, 1, 12), fam=FAMILIES[family])
            batch.append((st, init, steps))
            if len(batch) >= 1000:
                process(ctx, cfg, batch, tags=['history', 'family=' + family])
                batch = []
        process(ctx, cfg, batch, tags=['history', 'family=' + family])
    # 3. size boundaries (oracle only)
    big_histories(ctx, cfg, rng)
    # 4. aliasing / object reuse
    aliasing_probes(ctx, rng, ctx.n(150, 2000))
    reuse_probes(ctx, rng, ctx.n(120, 1500))


def replay(ctx, case):
    cfg = dict(CFG_CURRENT)
    if 'probe' in case:
        enforce_variant(ctx)
        return
    if 'alias' in case:
        aliasing_probe(ctx, case)
        return
    if 'reuse' in case:
        reuse_probe(ctx, case)
        return
    st = case['init']
    init, steps = run_history(st, case['ops'])
    process(ctx, cfg, [(st, init, steps)], tags=['replay'])
