"""C08 - reactive flux obeys its definition and is conserved.

Real code driven: enspara.tpt.reactive_fluxes, net_fluxes, reactive_populations (populations given
or computed; ndarray and the 7 scipy *_matrix containers).  Every real output is judged by the
property's own words in plain numpy with an independent oracle for the committors (reduced linear
system solved with numpy) and the exact stationary distribution of the generated chain, and is
compared with the exact rational values of the Lean model (Model/Tpt.lean through the driver).
"""
from fractions import Fraction as F

import numpy as np

from props import c07 as base

RULE = ('reversible irreducible chains from symmetric integer weight matrices (3..10 states, random sparsity, '
        'zero and non-zero diagonals; stationary populations = row weight / total weight, exact), plus non-reversible '
        'chains for the definitional clauses only; ALL disjoint non-empty source/sink pairs (sizes <= 3) leaving at '
        'least one intermediate state on small chains, random pairs on larger ones, shuffled order; populations given '
        'or computed; ndarray and the 7 scipy *_matrix containers. The degenerate case "every state is a source or a '
        'sink" is never generated; cases whose exact normaliser sum(pi q (1-q)) is 0 (no intermediate state is '
        'reactive) skip the population clauses and are counted. Non-trivial = some intermediate state carries flux; '
        'distinct by canonical input')
ASSUMPTIONS = [
    'committors entering the fluxes satisfy C07 (checked here again through an independent numpy solve of the first-step equations)',
    'binary64 rounding of rational inputs is far below the 1e-9 tolerances on these chains',
]
TRUSTED_EXTRA = ['Model/LinSolveT.lean elimination is untrusted: results are used only after the exact residual certificate']

MIRRORS = [('enspara/tpt/tpt.py', None), ('enspara/tpt/core.py', ['_I_m_Q', 'committors'])]

TOL = 1e-9
TIGHT = 1e-12
REL_CAP = 1e-2     # a comparison whose rounding allowance exceeds 1 % of its scale is skipped and counted
CONTAINERS = base.CONTAINERS


def exact_pi_reversible(T):
    """for T = C / rowsum(C) with symmetric C the stationary vector is rowsum/total; recover it exactly
    from T by detailed balance along a spanning tree (independent of the Lean model)"""
    n = len(T)
    w = [None] * n
    w[0] = F(1)
    stack = [0]
    while stack:
        i = stack.pop()
        for j in range(n):
            if w[j] is None and T[i][j] != 0 and T[j][i] != 0:
                w[j] = w[i] * T[i][j] / T[j][i]
                stack.append(j)
    tot = sum(w)
    return [x / tot for x in w]


def oracle_committors(Tf, src, snk):
    """plain numpy: solve q_i - sum_{j free} T_ij q_j = sum_{s in sinks} T_is on the free states"""
    n = Tf.shape[0]
    free = [i for i in range(n) if i not in src and i not in snk]
    q = np.zeros(n)
    q[snk] = 1.0
    if free:
        A = np.eye(len(free)) - Tf[np.ix_(free, free)]
        b = Tf[np.ix_(free, snk)].sum(axis=1)
        q[free] = np.linalg.solve(A, b)
    return q


def requests(case):
    rq = {'op': 'C08.tpt', 'T': case['T'], 'sources': case['sources'], 'sinks': case['sinks']}
    if case['pops'] != ['none']:      # populations=None only: the model computes them too (eqProbs)
        rq['pi'] = case['pi']
    return [rq]


def dense_of(x):
    import scipy.sparse as sp
    return np.asarray(x.toarray() if sp.issparse(x) else x, dtype=float)


def check_case(ctx, case, resp):
    from enspara import tpt
    T = base.t_from_json(case['T'])
    n = len(T)
    Tf = base.t_float(T)
    src, snk = case['sources'], case['sinks']
    inter = [i for i in range(n) if i not in src and i not in snk]
    reversible = case['kind'] in ('rev', 'meta-rev')
    pi = np.array([a / b for a, b in case['pi']], dtype=float)      # exact stationary vector, rounded
    q = oracle_committors(Tf, src, snk)
    f_ref = (pi * (1 - q))[:, None] * Tf * q[None, :]
    np.fill_diagonal(f_ref, 0.0)
    carries = bool(inter) and float(np.max(f_ref[inter])) > 0
    # rounding allowances, propagated from what binary64 can deliver on a slowly mixing chain (gap = distance of the
    # second eigenvalue from 1): committors |dq| <= 2e-15/gap (observed <= 1.6e-16/gap), computed populations
    # relative 1e-13/gap (observed <= 3.2e-15/gap); f = pi T (1-q_i) q_j  =>  |df| <= 2 dq max(pi_i T_ij) + dpi f.
    # All flux comparisons are RELATIVE to the flux scale fs.  Ordinary chains (gap >= 1e-2): allowance ~ 1e-9 fs.
    fac, gap = base.cond_factor(Tf)
    dq, dpi = 2e-15 / gap, 1e-13 / gap
    fs = float(np.max(f_ref))
    piT = pi[:, None] * Tf
    np.fill_diagonal(piT, 0.0)
    ftol = TOL * fs + 2 * dq * float(np.max(piT)) + dpi * fs
    flux_ok = fs > 0 and ftol <= REL_CAP * fs
    dens_ref = pi * q * (1 - q)
    N_ref = float(dens_ref.sum())
    ptol = (2 * dq / N_ref + dpi + TOL) if N_ref > 0 else np.inf
    pop_ok = ptol <= REL_CAP
    if fac > 1:
        ctx.tag('slow-mixing gap<1e-%d' % int(np.floor(-np.log10(gap))))
    ctx.case({k: case[k] for k in ('T', 'sources', 'sinks')}, nontrivial=carries,
             tags=['kind=' + case['kind'], 'n=%d' % n, 'nsrc=%d' % len(src), 'nsnk=%d' % len(snk),
                   'ninter=%d' % min(len(inter), 4), 'argform=' + case['argform']])

    def fail(what, **extra):
        ctx.violation(what, dict(case, **extra))

    m = resp[0]
    model_ok = 'ok' in m
    zero_norm = model_ok and isinstance(m['ok']['pop'], dict)      # model: zero-division
    dense_out = None
    for cont in ['ndarray'] + case['containers']:
        for pops in case['pops']:
            X = base.to_container(Tf, cont)
            a_src, a_snk = base.as_arg(src, case['argform']), base.as_arg(snk, case['argform'])
            p = None if pops == 'none' else np.array(pi, copy=True)
            before = (base.snap(X), base.snap(a_src), base.snap(a_snk), base.snap(p))
            where = dict(container=cont, pops=pops)
            ctx.tag('container=' + cont)
            ctx.tag('pops=' + pops)
            rf = base.call(tpt.reactive_fluxes, X, a_src, a_snk, populations=p)
            rg = base.call(tpt.net_fluxes, X, a_src, a_snk, populations=p)
            rp = base.call(tpt.reactive_populations, X, a_src, a_snk, populations=p)
            for nm, r in (('reactive_fluxes', rf), ('net_fluxes', rg), ('reactive_populations', rp)):
                if 'error' in r:
                    return fail('tpt.%s raised %s' % (nm, r['error']), failing=nm, **where)
            if (base.snap(X), base.snap(a_src), base.snap(a_snk), base.snap(p)) != before:
                return fail('tpt flux functions modified their inputs', failing='inputs', **where)
            f, g = dense_of(rf['ok']), dense_of(rg['ok'])
            rpop = np.asarray(rp['ok'], dtype=float)
            if f.shape != (n, n) or g.shape != (n, n) or rpop.shape != (n,):
                return fail('bad output shapes %s %s %s' % (f.shape, g.shape, rpop.shape), failing='shape', **where)
            # --- definition of the reactive flux
            if np.max(np.abs(np.diag(f))) != 0.0:
                return fail('reactive flux not zero on the diagonal', failing='flux-diagonal', **where)
            if not flux_ok:
                ctx.skip('flux comparisons relative to the flux scale: rounding allowance > 1 %% of the scale (gap %.0e)'
                         % 10 ** np.floor(np.log10(gap)))
            elif np.max(np.abs(f - f_ref)) > ftol:
                return fail('reactive flux differs from pi_i q-_i T_ij q+_j by %.3g (flux scale %.3g, allowance %.3g)'
                            % (np.max(np.abs(f - f_ref)), fs, ftol),
                            failing='flux-definition', got=f.tolist(), **where)
            # --- net flux is the positive part of f - f^T (of the real f), one direction per pair
            d = f - f.T
            if np.max(np.abs(g - np.where(d > 0, d, 0.0))) > 1e-15:
                return fail('net flux is not the positive part of f - f^T', failing='net-definition',
                            got=g.tolist(), **where)
            if np.any(g < 0) or np.any((g != 0) & (g.T != 0)):
                return fail('both directions of a pair carry net flux (or negative net flux)',
                            failing='net-one-direction', got=g.tolist(), **where)
            if reversible:
                inflow, outflow = g.sum(axis=0), g.sum(axis=1)
                gs = max(float(np.max(g)), fs)
                ctol = TOL * fac * gs          # conservation only needs a small residual of the committor system
                if inter and np.max(np.abs(inflow[inter] - outflow[inter])) > ctol:
                    return fail('net flux not conserved at an intermediate state (residual %.3g)'
                                % np.max(np.abs(inflow[inter] - outflow[inter])),
                                failing='conservation', got=g.tolist(), **where)
                if flux_ok and np.max(np.abs(g[:, src])) > ftol:
                    return fail('net flux flows into a source', failing='into-sources', got=g.tolist(), **where)
                if flux_ok and np.max(np.abs(g[snk, :])) > ftol:
                    return fail('net flux flows out of a sink', failing='out-of-sinks', got=g.tolist(), **where)
                if abs(outflow[src].sum() - inflow[snk].sum()) > n * ctol:
                    return fail('total outflow from sources %.12g != total inflow to sinks %.12g'
                                % (outflow[src].sum(), inflow[snk].sum()), failing='total', **where)
                # --- reactive populations
                if zero_norm or not model_ok:
                    ctx.skip('reactive populations: exact normaliser sum(pi q (1-q)) is 0 (no reactive intermediate state)')
                elif not pop_ok:
                    ctx.skip('reactive populations: rounding allowance 2 dq / sum(pi q (1-q)) > 1 % (slowly mixing chain)')
                    if np.all(np.isfinite(rpop)) and abs(rpop.sum() - 1.0) > TOL:
                        return fail('reactive populations sum to %.12g' % rpop.sum(), failing='pop-sum',
                                    got=rpop.tolist(), **where)
                else:
                    if not np.all(np.isfinite(rpop)) or np.any(rpop < -ptol):
                        return fail('reactive populations not finite / negative', failing='pop-nonneg',
                                    got=rpop.tolist(), **where)
                    if abs(rpop.sum() - 1.0) > TOL:
                        return fail('reactive populations sum to %.12g' % rpop.sum(), failing='pop-sum',
                                    got=rpop.tolist(), **where)
                    if np.max(np.abs(rpop[src + snk])) > TIGHT:
                        return fail('reactive populations do not vanish on sources/sinks', failing='pop-boundary',
                                    got=rpop.tolist(), **where)
                    if np.max(np.abs(rpop - dens_ref / N_ref)) > ptol:
                        return fail('reactive populations differ from pi q+ q- normalised', failing='pop-definition',
                                    got=rpop.tolist(), **where)
            if dense_out is None:
                dense_out = (f, g, rpop)
            else:
                dvtol = (TOL + dpi) * max(fs, float(np.max(np.abs(dense_out[0]))))
                if np.max(np.abs(f - dense_out[0])) > dvtol or np.max(np.abs(g - dense_out[1])) > 2 * dvtol:
                    return fail('fluxes differ between ndarray/first call and %s, populations=%s' % (cont, pops),
                                failing='dense-vs-sparse', **where)
                if reversible and model_ok and not zero_norm and pop_ok \
                        and np.max(np.abs(rpop - dense_out[2])) > TOL + 2 * dpi:
                    return fail('reactive populations differ between ndarray and %s' % cont,
                                failing='dense-vs-sparse', **where)
    # --- model vs real
    if not model_ok:
        ctx.disagreement('Model C08.tpt returned %s where the real code succeeded' % m, dict(case, model=m))
        return
    f, g, rpop = dense_out
    mo = m['ok']
    if not flux_ok:
        return
    if np.max(np.abs(base.fr_mat(mo['flux']) - f)) > ftol:
        ctx.disagreement('Model Tpt.reactiveFluxes vs tpt.reactive_fluxes', dict(case, impl=f.tolist()))
        return
    if np.max(np.abs(base.fr_mat(mo['net']) - g)) > 2 * ftol:
        ctx.disagreement('Model Tpt.netFluxes vs tpt.net_fluxes', dict(case, impl=g.tolist()))
        return
    if not zero_norm and pop_ok and np.max(np.abs(base.fr_vec(mo['pop']) - rpop)) > ptol:
        ctx.disagreement('Model Tpt.reactivePopulations vs tpt.reactive_populations', dict(case, impl=rpop.tolist()))
        return
    if zero_norm:
        ctx.tag('zero-normaliser')


def make_cases(ctx):
    rng = ctx.rng
    cases = []
    rot = [0]

    def one_container():
        rot[0] += 1
        return [CONTAINERS[rot[0] % len(CONTAINERS)]]

    def add(kind, T, A, B, containers, pops):
        if kind in ('rev', 'meta-rev'):
            pi = exact_pi_reversible(T)
            assert base.is_reversible_pi(T, pi)
            pij = [base._fr(x) for x in pi]
        else:
            pij = None          # filled from the model's exact eq_probs below
        cases.append({'kind': kind, 'T': base.t_json(T), 'sources': A, 'sinks': B, 'pi': pij,
                      'containers': containers, 'pops': pops,
                      'argform': base.ARGFORMS[int(rng.integers(0, 3))]})

    exhaustive = ctx.n({3: 6, 4: 4, 5: 1}, {3: 16, 4: 12, 5: 8, 6: 3, 7: 1})
    for n, reps in exhaustive.items():
        for r in range(reps):
            T = base.gen_chain(rng, n, 'rev')
            for A, B in base.all_set_pairs(n):
                if len(A) + len(B) >= n:
                    continue                      # never: every state a source or a sink
                if rng.random() < 0.5:
                    A, B = A[::-1], B[::-1]
                add('rev', T, list(A), list(B), one_container(), ['given'] if rot[0] % 2 else ['none'])
    for r in range(ctx.n(500, 4000)):
        n = int(rng.integers(3, 11))
        kind = 'rev' if r % 5 else 'nonrev'
        T = base.gen_chain(rng, n, kind)
        A, B = base.random_set_pair(rng, n, need_free=1)
        add(kind, T, A, B, list(CONTAINERS) if r % 2 == 0 else one_container(), ['given', 'none'])
    # metastable reversible chains (two/three basins, barrier weights ~10^U(-7,-4) of the in-basin weights): the
    # stationary vector is rowsum(C)/sum(C) in closed form; the library must find it itself when populations=None
    for r in range(ctx.n(40, 1200)):
        T = base.gen_chain(rng, 0, 'meta-rev')
        for _ in range(2):
            A, B = base.random_set_pair(rng, len(T), need_free=1)
            add('meta-rev', T, A, B, list(CONTAINERS) if r % 4 == 0 else one_container(), ['none', 'given'])
    # exact stationary vectors of the non-reversible chains from the model's certified solver
    idx = [i for i, c in enumerate(cases) if c['pi'] is None]
    resp = ctx.driver([{'op': 'C08.eq_probs', 'T': cases[i]['T']} for i in idx])
    keep = []
    for i, r in zip(idx, resp):
        if 'ok' in r:
            cases[i]['pi'] = r['ok']
        else:
            ctx.disagreement('Model eqProbs failed on an irreducible chain: %s' % r, cases[i])
            keep.append(i)
    return [c for i, c in enumerate(cases) if i not in keep]


def run_cases(ctx, cases):
    reqs = []
    for c in cases:
        reqs += requests(c)
    resp = ctx.driver(reqs)
    for c, r in zip(cases, resp):
        check_case(ctx, c, [r])


def run(ctx):
    run_cases(ctx, make_cases(ctx))
    ctx.note('tolerances', {'definition/conservation': TOL, 'boundary_abs': TIGHT})


def replay(ctx, data):
    keys = ('kind', 'T', 'sources', 'sinks', 'pi', 'containers', 'pops', 'argform')
    run_cases(ctx, [{k: data[k] for k in keys}])
