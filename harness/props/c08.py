"""C08 - reactive flux obeys its definition and is conserved.

Real code driven: enspara.tpt.reactive_fluxes, net_fluxes, reactive_populations (populations given
or computed; ndarray and the 7 scipy *_matrix containers).  Every real output is judged by the
property's own words in plain numpy with an independent oracle for the committors (reduced linear
system solved with numpy) and the exact stationary distribution of the generated chain, and is
compared with the exact rational values of the Lean model (Model/Tpt.lean through the driver).
"""
from fractions import Fraction as F

import numpy as np

from props import c07 as base

RULE = ('[edge families: metastable, banded 257..511 states (model skipped), entries ~1e-13, self-transition 1-1e-9, source '
        'adjacent only to a sink, all states but one absorbing, sinks ids below source ids unsorted, index args as '
        'list/tuple/range/scalars/int8..int64 arrays, tprob C/Fortran/negative-stride/float32, populations ndarray/list/tuple/'
        'float32, keyword vs positional, same objects reused across committors->fluxes->net fluxes->populations] '
        'reversible irreducible chains from symmetric integer weight matrices (3..10 states, random sparsity, '
        'zero and non-zero diagonals; stationary populations = row weight / total weight, exact), plus non-reversible '
        'chains for the definitional clauses only; ALL disjoint non-empty source/sink pairs (sizes <= 3) leaving at '
        'least one intermediate state on small chains, random pairs on larger ones, shuffled order; populations given '
        'or computed; ndarray and the 7 scipy *_matrix containers. The degenerate case "every state is a source or a '
        'sink" is never generated; cases whose exact normaliser sum(pi q (1-q)) is 0 (no intermediate state is '
        'reactive) are evaluated and reported under the open known finding reactive-populations-zero-normaliser. Non-trivial = some intermediate state carries flux; '
        'distinct by canonical input')
ASSUMPTIONS = [
    'committors entering the fluxes satisfy C07 (checked here again through an independent numpy solve of the first-step equations)',
    'binary64 rounding of rational inputs is far below the 1e-9 tolerances on these chains',
]
TRUSTED_EXTRA = ['Model/LinSolveT.lean elimination is untrusted: results are used only after the exact residual certificate']

MIRRORS = [('enspara/tpt/tpt.py', None), ('enspara/tpt/core.py', ['_I_m_Q', 'committors'])]

TOL = 1e-9
TIGHT = 1e-12
REL_CAP = 2e-2     # a comparison whose rounding allowance exceeds 1 % of its scale is skipped and counted
CONTAINERS = base.CONTAINERS


exact_pi_reversible = base.exact_pi_reversible


def oracle_committors(Tf, src, snk):
    """plain numpy: solve q_i - sum_{j free} T_ij q_j = sum_{s in sinks} T_is on the free states"""
    n = Tf.shape[0]
    free = [i for i in range(n) if i not in src and i not in snk]
    q = np.zeros(n)
    q[snk] = 1.0
    if free:
        A = np.eye(len(free)) - Tf[np.ix_(free, free)]
        b = Tf[np.ix_(free, snk)].sum(axis=1)
        q[free] = np.linalg.solve(A, b)
    return q


ZERO_NORM_KEY = 'reactive-populations-zero-normaliser'
REVERSIBLE_KINDS = ('rev', 'meta-rev', 'sticky', 'tiny-rev', 'pendant', 'rev-dyadic', 'banded', 'wells', 'lazy-wells')


def requests(case):
    if not case.get('model', True):
        return []
    rq = {'op': 'C08.tpt', 'T': case['T'], 'sources': case['sources'], 'sinks': case['sinks']}
    if case['pops'] != ['none']:      # populations=None only: the model computes them too (eqProbs)
        rq['pi'] = case['pi']
    return [rq]


def dense_of(x):
    import scipy.sparse as sp
    return np.asarray(x.toarray() if sp.issparse(x) else x, dtype=float)


def check_case(ctx, case, resp):
    from enspara import tpt
    T = base.case_T(case)
    n = len(T)
    Tf = base.t_float(T)
    src, snk = case['sources'], case['sinks']
    inter = [i for i in range(n) if i not in src and i not in snk]
    reversible = case['kind'] in REVERSIBLE_KINDS
    use_model = case.get('model', True)
    if 'pi' in case and case['pi'] is not None:
        pi_exact = np.array([a / b for a, b in case['pi']], dtype=float)      # exact stationary vector, rounded
    else:
        pi_exact = np.array([float(x) for x in exact_pi_reversible(T)])
    q = oracle_committors(Tf, src, snk)
    # rounding allowances, propagated from what binary64 can deliver:
    #  * committors |dq| <= 20 eps cond_inf(I - T_ff) of the absorbing system actually solved (so a slowly mixing chain whose
    #    every well holds a source or a sink is NOT penalised)
    #  * computed populations (only where populations=None): relative 5e-14/gap and 1e-12/pi_min (LAPACK eig is absolute-accurate)
    #  * f = pi T (1-q_i) q_j  =>  |df| <= 2 dq max(pi_i T_ij) + dpi f.
    # All flux comparisons are RELATIVE to the flux scale fs.  Ordinary chains: allowance ~ 1e-9 fs.
    fac, gap = base.cond_factor(Tf)
    stick = base.stickiness(Tf)
    minp = 1e-14 / stick                      # float chain vs exact rational chain (model comparisons only)
    if inter:
        condA = float(np.linalg.cond(np.eye(len(inter)) - Tf[np.ix_(inter, inter)], np.inf))
    else:
        condA = 1.0
    dq = 4.4e-15 * condA                       # 20 eps cond(I - T_ff); observed <= 1.5 eps cond on every family
    dpi = max(5e-14 / gap, 1e-12 / base.pi_min(Tf))   # observed <= 5.6e-15/gap and <= 1.5e-14/pi_min
    if fac > 1:
        ctx.tag('slow-mixing gap<1e-%d' % int(np.floor(-np.log10(gap))))
    if stick < 1e-3:
        ctx.tag('sticky-state exit<1e-%d' % int(np.floor(-np.log10(stick))))

    def refs(pi, computed=True):
        dpi_ = dpi if computed else 0.0
        f_ref = (pi * (1 - q))[:, None] * Tf * q[None, :]
        np.fill_diagonal(f_ref, 0.0)
        fs = float(np.max(f_ref))
        piT = pi[:, None] * Tf
        np.fill_diagonal(piT, 0.0)
        ftol = TOL * fs + 2 * dq * float(np.max(piT)) + dpi_ * fs
        dens = pi * q * (1 - q)
        N = float(dens.sum())
        ptol = (2 * (dq + minp) / N + dpi_ + TOL) if N > 0 else np.inf     # minp: q may leave [0,1] by that much
        return f_ref, fs, ftol, dens, N, ptol

    f_ref0, fs0, ftol0, _, N0, ptol0 = refs(pi_exact)
    carries = bool(inter) and float(np.max(f_ref0[inter])) > 0
    kw = case.get('callstyle') == 'kw'
    ctx.case(dict(base.case_id(case), sources=src, sinks=snk), nontrivial=carries,
             tags=['kind=' + case['kind'], 'n=%d' % n if n <= 10 else 'n>255' if n > 255 else 'n>10',
                   'nsrc=%d' % min(len(src), 4), 'nsnk=%d' % min(len(snk), 4),
                   'ninter=%d' % min(len(inter), 4), 'argform=' + case['argform'], 'mode=' + case.get('mode', '?'),
                   'call=keyword' if kw else 'call=positional'] + base.order_tags(src, snk))

    m = resp[0] if use_model else None
    model_ok = use_model and 'ok' in m
    if use_model:
        zero_norm = model_ok and isinstance(m['ok']['pop'], dict)      # model: zero-division
    else:
        ctx.tag('model-skipped-large-n')
        zero_norm = N0 == 0
    dense_out = None
    for cont in ['ndarray'] + case['containers']:
        for pops in case['pops']:
            X = base.to_container(Tf, cont)
            a_src, a_snk = base.as_arg(src, case['argform']), base.as_arg(snk, case.get('argform_sinks', case['argform']))
            p, pi = base.pops_arg(pi_exact, pops)
            f_ref, fs, ftol, dens_ref, N_ref, ptol = refs(pi, computed=(pops == 'none'))
            f32 = pops == 'given-f32' or cont == 'float32'
            if cont == 'float32' and pops == 'none':
                # a float32 tprob makes the library's own eq_probs single precision (relative 1e-7 on the populations)
                ftol += 1e-5 * fs
                ptol += 1e-5
            flux_ok = fs > 0 and ftol <= REL_CAP * fs
            pop_ok = ptol <= REL_CAP
            before = (base.snap(X), base.snap(a_src), base.snap(a_snk), base.snap(p))
            where = dict(container=cont, pops=pops)
            def fail(what, **extra):
                ctx.violation(what, dict(case, **extra))

            ctx.tag('container=' + cont)
            ctx.tag('pops=' + pops)
            if case.get('reuse'):
                rq1 = base.call(tpt.committors, X, a_src, a_snk)
            if kw:
                rf = base.call(tpt.reactive_fluxes, tprob=X, sources=a_src, sinks=a_snk, populations=p)
                rg = base.call(tpt.net_fluxes, tprob=X, sources=a_src, sinks=a_snk, populations=p)
                rp = base.call(tpt.reactive_populations, tprob=X, sources=a_src, sinks=a_snk, populations=p)
            else:
                rf = base.call(tpt.reactive_fluxes, X, a_src, a_snk, p)
                rg = base.call(tpt.net_fluxes, X, a_src, a_snk, p)
                rp = base.call(tpt.reactive_populations, X, a_src, a_snk, p)
            for nm, r in (('reactive_fluxes', rf), ('net_fluxes', rg), ('reactive_populations', rp)):
                if 'error' in r:
                    return fail('tpt.%s raised %s' % (nm, r['error']), failing=nm, **where)
            if case.get('reuse'):
                # the SAME objects went through committors -> fluxes -> net fluxes -> populations -> committors
                ctx.tag('reuse-same-objects container=' + cont)
                rq2 = base.call(tpt.committors, X, a_src, a_snk)
                rf2 = base.call(tpt.reactive_fluxes, X, a_src, a_snk, populations=p)
                if 'error' in rq1 or 'error' in rq2 or 'error' in rf2:
                    return fail('a repeated call on the same argument objects raised', failing='reuse', **where)
                if not np.array_equal(np.asarray(rq1['ok']), np.asarray(rq2['ok'])) \
                        or not np.array_equal(dense_of(rf['ok']), dense_of(rf2['ok'])):
                    return fail('results change when the same argument objects are used again', failing='reuse', **where)
            if (base.snap(X), base.snap(a_src), base.snap(a_snk), base.snap(p)) != before:
                return fail('tpt flux functions modified their inputs', failing='inputs', **where)
            f, g = dense_of(rf['ok']), dense_of(rg['ok'])
            rpop = np.asarray(rp['ok'], dtype=float)
            if f.shape != (n, n) or g.shape != (n, n) or rpop.shape != (n,):
                return fail('bad output shapes %s %s %s' % (f.shape, g.shape, rpop.shape), failing='shape', **where)
            # --- definition of the reactive flux
            if np.max(np.abs(np.diag(f))) != 0.0:
                return fail('reactive flux not zero on the diagonal', failing='flux-diagonal', **where)
            if not flux_ok:
                ctx.skip('flux comparisons relative to the flux scale: rounding allowance > 1 %% of the scale (gap %.0e)'
                         % 10 ** np.floor(np.log10(min(gap, stick, 1.0 / condA))))
            elif np.max(np.abs(f - f_ref)) > ftol:
                return fail('reactive flux differs from pi_i q-_i T_ij q+_j by %.3g (flux scale %.3g, allowance %.3g)'
                            % (np.max(np.abs(f - f_ref)), fs, ftol),
                            failing='flux-definition', got=f.tolist()[:12], **where)
            # --- net flux is the positive part of f - f^T (of the real f), one direction per pair
            d = f - f.T
            if np.max(np.abs(g - np.where(d > 0, d, 0.0))) > 1e-15 * max(1.0, fs):
                return fail('net flux is not the positive part of f - f^T', failing='net-definition',
                            got=g.tolist()[:12], **where)
            if np.any(g < 0) or np.any((g != 0) & (g.T != 0)):
                return fail('both directions of a pair carry net flux (or negative net flux)',
                            failing='net-one-direction', got=g.tolist()[:12], **where)
            if reversible:
                inflow, outflow = g.sum(axis=0), g.sum(axis=1)
                gs = max(float(np.max(g)), fs)
                # conservation only needs a small residual of the committor system and detailed balance of the
                # populations used (computed ones are relative-accurate to dpi, float32 ones to 6e-8; single-precision
                # eq_probs to ~1e-6) and rows that sum to 1 relative to the exit rate (binary64 input: minp)
                ctol = (TOL * fac + (dpi if pops == 'none' else 0.0) + (1e-5 if f32 else 0.0) + minp) * gs
                if inter and np.max(np.abs(inflow[inter] - outflow[inter])) > ctol:
                    return fail('net flux not conserved at an intermediate state (residual %.3g, net flux scale %.3g)'
                                % (np.max(np.abs(inflow[inter] - outflow[inter])), gs),
                                failing='conservation', got=g.tolist()[:12], **where)
                if flux_ok and np.max(np.abs(g[:, src])) > ftol + minp * fs:
                    return fail('net flux flows into a source', failing='into-sources', got=g.tolist()[:12], **where)
                if flux_ok and np.max(np.abs(g[snk, :])) > ftol + minp * fs:   # q may exceed 1 by minp (rows not exactly stochastic)
                    return fail('net flux flows out of a sink', failing='out-of-sinks', got=g.tolist()[:12], **where)
                if abs(outflow[src].sum() - inflow[snk].sum()) > n * ctol:
                    return fail('total outflow from sources %.12g != total inflow to sinks %.12g'
                                % (outflow[src].sum(), inflow[snk].sum()), failing='total', **where)
                # --- reactive populations
                if zero_norm or (use_model and not model_ok):
                    # OPEN KNOWN FINDING: the exact normaliser sum(pi q (1-q)) is 0 (no intermediate state is reactive):
                    # the property's words are evaluated all the same; the code returns 0/0
                    ctx.tag('zero-normaliser call')
                    bad = (not np.all(np.isfinite(rpop)) or np.any(rpop < -TIGHT) or abs(rpop.sum() - 1.0) > TOL
                           or np.max(np.abs(rpop[src + snk])) > TIGHT)
                    if bad:
                        ctx.violation('reactive populations are not a probability vector (exact normaliser '
                                      'sum(pi q+ q-) is 0: %s)' % ('non-finite output' if not np.all(np.isfinite(rpop))
                                                                  else 'negative / not normalised'),
                                      dict(case, failing='pop-zero-normaliser', got=[repr(float(x)) for x in rpop[:12]],
                                           **where), key=ZERO_NORM_KEY)
                elif not pop_ok:
                    ctx.skip('reactive populations: rounding allowance 2 dq / sum(pi q (1-q)) > 1 % (slowly mixing chain)')
                    if np.all(np.isfinite(rpop)) and abs(rpop.sum() - 1.0) > TOL:
                        return fail('reactive populations sum to %.12g' % rpop.sum(), failing='pop-sum',
                                    got=rpop.tolist()[:40], **where)
                else:
                    if not np.all(np.isfinite(rpop)) or np.any(rpop < -ptol):
                        return fail('reactive populations not finite / negative', failing='pop-nonneg',
                                    got=rpop.tolist()[:40], **where)
                    if abs(rpop.sum() - 1.0) > TOL:
                        return fail('reactive populations sum to %.12g' % rpop.sum(), failing='pop-sum',
                                    got=rpop.tolist()[:40], **where)
                    if np.max(np.abs(rpop[src + snk])) > TIGHT:
                        return fail('reactive populations do not vanish on sources/sinks', failing='pop-boundary',
                                    got=rpop.tolist()[:40], **where)
                    if np.max(np.abs(rpop - dens_ref / N_ref)) > ptol:
                        return fail('reactive populations differ from pi q+ q- normalised', failing='pop-definition',
                                    got=rpop.tolist()[:40], **where)
            if dense_out is None:
                dense_out = (f, g, rpop, pops)
            else:
                loose = 1e-5 if (f32 or dense_out[3] == 'given-f32') else 0.0
                dvtol = (TOL + dpi + loose) * max(fs, float(np.max(np.abs(dense_out[0]))))
                if np.max(np.abs(f - dense_out[0])) > dvtol or np.max(np.abs(g - dense_out[1])) > 2 * dvtol:
                    return fail('fluxes differ between ndarray/first call and %s, populations=%s' % (cont, pops),
                                failing='dense-vs-sparse', **where)
                if reversible and not zero_norm and pop_ok and (model_ok or not use_model) \
                        and np.max(np.abs(rpop - dense_out[2])) > TOL + 2 * dpi + loose:
                    return fail('reactive populations differ between ndarray and %s' % cont,
                                failing='dense-vs-sparse', **where)
    # --- model vs real (first call: ndarray with the first populations form)
    if not use_model:
        return
    if not model_ok:
        ctx.disagreement('Model C08.tpt returned %s where the real code succeeded' % m, dict(case, model=m))
        return
    f, g, rpop, pops0 = dense_out
    mo = m['ok']
    loose = 1e-6 if pops0 == 'given-f32' else 0.0
    mtol = ftol0 + (minp + loose) * fs0
    if not (fs0 > 0 and mtol <= REL_CAP * fs0):
        return
    if np.max(np.abs(base.fr_mat(mo['flux']) - f)) > mtol:
        ctx.disagreement('Model Tpt.reactiveFluxes vs tpt.reactive_fluxes', dict(case, impl=f.tolist()))
        return
    if np.max(np.abs(base.fr_mat(mo['net']) - g)) > 2 * mtol:
        ctx.disagreement('Model Tpt.netFluxes vs tpt.net_fluxes', dict(case, impl=g.tolist()))
        return
    if not zero_norm and ptol0 <= REL_CAP \
            and np.max(np.abs(base.fr_vec(mo['pop']) - rpop)) > ptol0 + 2 * minp / max(N0, 1e-300) + loose:
        ctx.disagreement('Model Tpt.reactivePopulations vs tpt.reactive_populations', dict(case, impl=rpop.tolist()))
        return
    if zero_norm:
        ctx.tag('zero-normaliser')


def make_cases(ctx):
    rng = ctx.rng
    cases = []
    rot = [0]
    ARGF = base.ARGFORMS
    POPS = ['given', 'given-list', 'given-tuple', 'given-f32']

    def one_container():
        rot[0] += 1
        return [CONTAINERS[rot[0] % len(CONTAINERS)]]

    def dense_var(kind):
        return [base.dense_variant(kind, rot[0])]

    def add(kind, T, A, B, containers, pops, mode, **extra):
        rot[0] += 1
        c = {'kind': kind, 'sources': [int(x) for x in A], 'sinks': [int(x) for x in B],
             'containers': containers, 'pops': pops, 'mode': mode,
             'argform': ARGF[int(rng.integers(0, len(ARGF)))],
             'callstyle': 'kw' if rot[0] % 3 == 0 else 'positional'}
        if isinstance(T, dict):
            c['Tgen'] = T
            c['model'] = False
            c['pi'] = None
        else:
            if kind in REVERSIBLE_KINDS:
                pi = exact_pi_reversible(T)
                assert base.is_reversible_pi(T, pi)
                c['pi'] = [base._fr(x) for x in pi]
            else:
                c['pi'] = None          # filled from the model's exact eq_probs below
            c['T'] = base.t_json(T)
        c.update(extra)
        cases.append(c)

    def popsel(r):
        return ['none', POPS[r % 4]] if r % 2 else [POPS[r % 4], 'none']

    # class 6 first: every sink id below every source id, unsorted order
    for r in range(ctx.n(40, 500)):
        n = int(rng.integers(4, 10))
        kind = ['rev', 'rev-dyadic', 'rev', 'nonrev'][r % 4]
        T = base.gen_chain(rng, n, kind)
        A, B = base.sinks_below_sources(rng, n)
        if len(A) + len(B) >= n:
            A, B = A[:1], B[:1]
        add(kind, T, A, B, (list(CONTAINERS) if r % 4 == 0 else one_container()) + dense_var(kind), popsel(r),
            'sinks-below-sources', reuse=(r % 3 == 0))
    exhaustive = ctx.n({3: 6, 4: 4, 5: 1}, {3: 16, 4: 12, 5: 8, 6: 3, 7: 1})
    for n, reps in exhaustive.items():
        for r in range(reps):
            T = base.gen_chain(rng, n, 'rev')
            for A, B in base.all_set_pairs(n):
                if len(A) + len(B) >= n:
                    continue                      # never: every state a source or a sink
                if rng.random() < 0.5:
                    A, B = A[::-1], B[::-1]
                add('rev', T, list(A), list(B), one_container(), ['given'] if rot[0] % 2 else ['none'], 'exhaustive')
    for r in range(ctx.n(500, 4000)):
        n = int(rng.integers(3, 11))
        kind = ['rev', 'rev', 'rev-dyadic', 'rev', 'nonrev'][r % 5]
        T = base.gen_chain(rng, n, kind)
        A, B = base.random_set_pair(rng, n, need_free=1)
        add(kind, T, A, B, (list(CONTAINERS) if r % 2 == 0 else one_container()) + dense_var(kind), popsel(r),
            'random', reuse=(r % 4 == 0))
    # metastable reversible chains (two/three basins, barrier weights ~10^U(-7,-4) of the in-basin weights): the
    # stationary vector is rowsum(C)/sum(C) in closed form; the library must find it itself when populations=None
    for r in range(ctx.n(40, 1200)):
        T = base.gen_chain(rng, 0, 'meta-rev')
        for _ in range(2):
            A, B = base.random_set_pair(rng, len(T), need_free=1)
            add('meta-rev', T, A, B, list(CONTAINERS) if r % 4 == 0 else one_container(), ['none', 'given'],
                'metastable')
    # 'numerically doubly stochastic' chains whose stationary vector is NOT uniform: internally symmetric wells joined by
    # asymmetric links r 2^-k : 2^-k (k = 33..38), and lazy versions I + 2^-j (T - I), j = 30..38, of moderately linked
    # ones.  Column sums are within 1e-10 of 1; pi is known in closed form (ratio r between wells).
    for r in range(ctx.n(24, 400)):
        if r % 3 == 2:
            kind = 'lazy-wells'
            T, pi, well = base.gen_wells(rng, int(rng.integers(3, 6)), lazy=int(rng.integers(30, 39)))
        else:
            kind = 'wells'
            T, pi, well = base.gen_wells(rng, 33 + int(rng.integers(0, 6)))
        n, nw = len(T), max(well) + 1
        if r % 4 != 3:          # every well holds a source or a sink: the committor system is well conditioned
            reps = [int(rng.choice([i for i in range(n) if well[i] == w])) for w in range(nw)]
            A, B = reps[:1], reps[-1:]
            if nw == 3:
                (A if rng.random() < 0.5 else B).append(reps[1])
            if rng.random() < 0.5:
                A, B = B, A
        else:
            A, B = base.random_set_pair(rng, n, need_free=1)
        add(kind, T, A, B, list(CONTAINERS) if r % 4 == 0 else one_container() + dense_var(kind), ['none', 'given'],
            'numerically-doubly-stochastic')
    # sources + sinks = all states but one (set sizes beyond 3)
    for r in range(ctx.n(20, 300)):
        n = int(rng.integers(3, 10))
        kind = 'rev' if r % 3 else 'rev-dyadic'
        A, B = base.split_all_but_one(rng, n)
        add(kind, base.gen_chain(rng, n, kind), A, B, one_container() + dense_var(kind), popsel(r), 'all-but-one')
    # a source adjacent only to a sink (every intermediate state has q = 1: nothing but the direct edge is reactive)
    for r in range(ctx.n(10, 150)):
        n = int(rng.integers(4, 9))
        T, s, k = base.gen_pendant(rng, n)
        add('pendant', T, [s], [k], list(CONTAINERS) if r % 3 == 0 else one_container(), popsel(r),
            'source-adjacent-only-to-sink', reuse=True)
    # self-transition probability 1 - 1e-6 / 1 - 1e-9; entries ~1e-13 next to O(1)
    for r in range(ctx.n(16, 300)):
        n = int(rng.integers(3, 9))
        kind = 'sticky' if r % 2 else 'tiny-rev'
        T = base.gen_chain(rng, n, kind)
        A, B = base.random_set_pair(rng, n, need_free=1)
        add(kind, T, A, B, list(CONTAINERS) if r % 3 == 0 else one_container(), ['none', 'given'], 'scale',
            reuse=(r % 2 == 0))
    # more than 255 states (reversible banded chain; ids above 255; oracle only)
    for r in range(ctx.n(2, 6)):
        n = base.LARGE_N[r % len(base.LARGE_N)]
        A, B, fa, fb = base.large_sets(rng, n, r)
        add('banded', {'family': 'banded', 'n': n, 'seed': int(rng.integers(0, 2 ** 31))}, A, B,
            ['csr_matrix', 'lil_matrix', 'fortran'], ['none', 'given'], 'large-n',
            argform=fa, argform_sinks=fb, reuse=(r == 0))
    # np.matrix input (what scipy's .todense() returns; computed a matrix product before the fix in /repo)
    for r in range(ctx.n(4, 40)):
        n = int(rng.integers(3, 8))
        T = base.gen_chain(rng, n, 'rev')
        A, B = base.random_set_pair(rng, n, need_free=1)
        add('rev', T, A, B, ['npmatrix'], ['given'], 'np-matrix')
    # exact stationary vectors of the non-reversible chains from the model's certified solver
    idx = [i for i, c in enumerate(cases) if c['pi'] is None and 'T' in c]
    resp = ctx.driver([{'op': 'C08.eq_probs', 'T': cases[i]['T']} for i in idx])
    drop = []
    for i, r in zip(idx, resp):
        if 'ok' in r:
            cases[i]['pi'] = r['ok']
        else:
            ctx.disagreement('Model eqProbs failed on an irreducible chain: %s' % r, cases[i])
            drop.append(i)
    return [c for i, c in enumerate(cases) if i not in drop]


def run_cases(ctx, cases):
    from threadpoolctl import threadpool_limits
    reqs, spans = [], []
    for c in cases:
        rq = requests(c)
        spans.append((len(reqs), len(reqs) + len(rq)))
        reqs += rq
    resp = ctx.driver(reqs)
    with threadpool_limits(limits=1):      # small matrices: multi-threaded LAPACK only burns CPU
        for c, (a, b) in zip(cases, spans):
            check_case(ctx, c, resp[a:b])


def run(ctx):
    run_cases(ctx, make_cases(ctx))
    ctx.note('tolerances', {'definition/conservation': TOL, 'boundary_abs': TIGHT,
                            'relative_to': 'flux scale; allowances propagated from dq=2e-15/min(gap, exit), dpi'})


REPLAY_KEYS = ('kind', 'T', 'Tgen', 'model', 'sources', 'sinks', 'pi', 'containers', 'pops', 'argform', 'argform_sinks', 'callstyle',
               'reuse', 'mode')


def replay(ctx, data):
    run_cases(ctx, [{k: data[k] for k in REPLAY_KEYS if k in data}])
