"""C16 - MSM estimator equals its function pipeline, round-trips, has a sound spectrum.

Sections (each evaluates the property's words on the real output with a plain numpy oracle,
then compares the real output with the Lean model `Model/Msm.lean` through the driver):

  fit        MSM(lag, method, trim, sliding_window, max_n_states).fit(a)  vs
             assigns_to_counts -> trim_disconnected -> builder composed by hand
  saveload   MSM.load(MSM.save(dir)) attribute by attribute (and MSM.__eq__)
  mapping    TrimMapping.write / read
  eig        eigenspectrum on ergodic matrices (complex pairs, negative eigenvalues, sparse input)
  timescales implied_timescales == -lag / log(lambda_k) of the fitted T
  ensemble   synthetic_ensemble == repeated multiplication by T
"""
import contextlib
import io
import itertools
import logging
import os
import shutil
import tempfile
import warnings
from fractions import Fraction

import numpy as np

RULE = ('fit: full product lag 1..4 x builder {normalize,transpose,mle} x trim x sliding_window x '
        'max_n_states given/None, each with fresh random state trajectories (1..5 rows, length 1..24, '
        '1..6 states, ragged or -1-padded, method passed as function or by name, keyword or positional '
        'arguments; most mle cases use 30..60 frames over 1..4 states so that the iteration converges) plus error cases (lag 0, too small state count, unknown builder name); a fit case is '
        'non-trivial when at least one transition is counted; tags say whether the sliding flag / lag / '
        'state count / trimming actually change the result.  saveload: every fitted estimator of a '
        'subset, into a fresh temporary directory.  mapping: random injective id maps in random order. '
        'eig: ergodic row-stochastic matrices of 2..8 states of kinds dense / cyclic (complex pairs) / '
        'bipartite (negative eigenvalues) / reversible / lazy ring (doubly stochastic) / exact 2-state / '
        'integer n-cycle, float64 / float32 / int64 dtype, '
        'dense, csr and coo input, n_eigs None/2..n/n+2, left and right.  timescales and ensemble: '
        'random trajectories (assignment dtypes int64/int32/int16/int8/uint8, lag_times as list/tuple/'
        'ndarray) / matrices; ensemble starts as float64, float32, int64/int32 one-hot, integer walker '
        'counts and Python lists, float64/float32 matrices, dense/csr/coo, with and without an '
        'observable, every returned row compared with repeated float64 left multiplication.  '
        'families: more than 255 states (300/520/1100, narrow assignment dtypes, model skipped for size), '
        'hundreds of trajectories of 1..4 frames, trimming down to one state, a single trajectory not longer '
        'than the lag, rows of -1 only, -1 inside rows, pendant / self-count-only / never-visited states; '
        'MSM.from_assignments, numpy-integer lag_time and n_eigs; save with custom file names, '
        'save->load->save->load, save(force=True) over an existing directory; history: one estimator '
        'fitted on A, then B, then B again, a second estimator, results held by the caller, the caller\'s '
        'array overwritten afterwards, spectral/propagation functions called twice on the same objects; '
        'sweep: one estimator taken through 4..8 configurations by set_params / attribute assignment (trim on->off '
        'and off->on, lag_time, sliding_window, method, max_n_states) and through MSM.load of itself, with data '
        'built so that the state count after trimming (non-identity mapping) equals the state count of the next, '
        'untrimmed data set, all results compared with the pipeline after every fit; '
        'eig kinds metastable / twin-blocks (second eigenvalue within 1e-5..1e-8 of one, eigenvalue pairs '
        'split by the coupling; vector comparisons conditioned on the gap, residuals not) and the 1-state '
        'matrix; metastable trajectories for the timescales.  distinct by canonical input')
ASSUMPTIONS = [
    'LAPACK (scipy.linalg.eig) returns the same decomposition for the same input within one process '
    '(used to feed the model the raw decomposition the library post-processes)',
    'numpy argsort keeps first-index order for equal keys on arrays shorter than 17 elements; vector '
    'columns inside a group of equal real parts are compared only when the choice does not matter',
    'mmwrite(precision=20)/mmread, savetxt/loadtxt, pickle and csv are exact on the values written '
    '(observed on every case of the saveload section, a parameter of theorem load_save_config_partial; full statement: def C16_load_save_full)',
    'the trimming stage and the builders are parameters of the model: the driver is handed the kept '
    'states observed from trim_disconnected and uses exact rational row-normalisation for '
    'normalize/transpose; the mle builder is compared on counts and mapping only',
]
TRUSTED_EXTRA = ['numpy.linalg.eigvals / lstsq as independent oracles for eigenvalues and the stationary distribution']

TOL = 1e-12
BUILDERS = ('normalize', 'transpose', 'mle')


# ----------------------------------------------------------------------------- helpers

@contextlib.contextmanager
def quiet():
    prev = logging.root.manager.disable
    logging.disable(logging.CRITICAL)
    try:
        with warnings.catch_warnings():
            warnings.simplefilter('ignore')
            with np.errstate(all='ignore'):
                yield
    finally:
        logging.disable(prev)


def frac(x):
    f = Fraction(float(x))
    return [f.numerator, f.denominator]


def unfrac(p):
    return Fraction(int(p[0]), int(p[1]))


def dense(x):
    return np.asarray(x.toarray() if hasattr(x, 'toarray') else x)


def close(a, b, tol=TOL):
    a, b = np.asarray(a, dtype=float), np.asarray(b, dtype=float)
    if a.shape != b.shape:
        return False
    return bool(np.allclose(a, b, rtol=tol, atol=tol, equal_nan=True))


def rat_close(model_rat, x, tol=TOL):
    """model rational (as [num, den]) vs a float"""
    x = float(x)
    if model_rat is None:
        return not np.isfinite(x)
    if not np.isfinite(x):
        return False
    return abs(float(unfrac(model_rat) - Fraction(x))) <= tol * max(1.0, abs(x))


def rat_mat_close(model, real, tol=TOL):
    real = np.asarray(real, dtype=float)
    if real.ndim != 2 or len(model) != real.shape[0]:
        return False
    for i, row in enumerate(model):
        if len(row) != real.shape[1]:
            return False
        for j, q in enumerate(row):
            if not rat_close(q, real[i, j], tol):
                return False
    return True


def ref_counts(rows, lag, sliding, n):
    """lagged pair count, the property's own words (as in C03)"""
    C = np.zeros((n, n), dtype=int)
    for r in rows:
        r = [x for x in r if x != -1]
        step = 1 if sliding else lag
        for t in range(0, len(r) - lag, step):
            if 0 <= r[t] < n and 0 <= r[t + lag] < n:
                C[r[t], r[t + lag]] += 1
    return C


ASSIGN_DTYPES = ('int64', 'int64', 'int32', 'int16', 'int8', 'uint8')
WIDE_DTYPES = ('int64', 'int32', 'int16', 'uint16')        # for more than 127 states


def pick_dtype(rng, form, choices=None):
    """assignment dtype for a generated case: unsigned types cannot hold the -1 padding, so a padded
    (rectangular) array never gets one - whatever the number of rows"""
    d = str(rng.choice(choices or ASSIGN_DTYPES))
    return d[1:] if (form == 'padded' and d.startswith('uint')) else d


def make_assigns(rows, form, dtype='int64'):
    """state ids are < 7 here, so every listed dtype holds them; unsigned types cannot hold the
    -1 padding and are used for ragged input only"""
    if form == 'ragged':
        from enspara import ra
        return ra.RaggedArray([np.array(r, dtype=np.dtype(dtype)) for r in rows])
    if dtype.startswith('uint'):
        dtype = dtype[1:]
    L = max(1, max(len(r) for r in rows))
    a = -np.ones((len(rows), L), dtype=np.dtype(dtype))
    for i, r in enumerate(rows):
        a[i, :len(r)] = r
    return a


def mapping_dict(tm):
    return {int(k): int(v) for k, v in tm.to_original.items()}


# ----------------------------------------------------------------------------- fit

def build_estimator(case, a):
    """construct and fit the way the case says: keyword / positional constructor, or the
    MSM.from_assignments classmethod"""
    from enspara.msm import MSM, builders
    method = case['builder'] if case['by_name'] else getattr(builders, case['builder'], case['builder'])
    lag = case['lag']
    if case.get('np_lag'):
        lag = (np.int32 if case.get('np_lag') == 'int32' else np.int64)(lag)
    if case.get('via') == 'from_assignments':
        return MSM.from_assignments(a, lag_time=lag, method=method, trim=case['trim'],
                                    sliding_window=case['sliding'], max_n_states=case['max_n'])
    if case.get('positional'):
        m = MSM(lag, method, case['trim'], case['sliding'], case['max_n'])
    else:
        m = MSM(lag_time=lag, method=method, trim=case['trim'],
                sliding_window=case['sliding'], max_n_states=case['max_n'])
    m.fit(a)
    return m


def run_estimator(case):
    a = make_assigns(case['rows'], case['form'], case.get('dtype', 'int64'))
    try:
        m = build_estimator(case, a)
    except Exception as e:  # noqa
        return None, type(e).__name__
    return m, None


def run_pipeline(case):
    from enspara.msm import builders
    from enspara.msm.transition_matrices import assigns_to_counts, trim_disconnected
    a = make_assigns(case['rows'], case['form'], case.get('dtype', 'int64'))
    out = {}
    try:
        builder = getattr(builders, case['builder'])
    except Exception as e:  # noqa
        return {'error': type(e).__name__, 'stage': 'init'}
    try:
        C = assigns_to_counts(a, lag_time=case['lag'], max_n_states=case['max_n'],
                              sliding_window=case['sliding'])
    except Exception as e:  # noqa
        return {'error': type(e).__name__, 'stage': 'counts'}
    out['raw'] = dense(C)
    if case['trim']:
        try:
            mp, C = trim_disconnected(C)
        except Exception as e:  # noqa
            return dict(out, error=type(e).__name__, stage='trim')
        out['mapping'] = mapping_dict(mp)
    else:
        out['mapping'] = {i: i for i in range(C.shape[0])}
    try:
        tc, tp, eq = builder(C)
    except Exception as e:  # noqa
        return dict(out, error=type(e).__name__, stage='builder')
    out.update(tcounts=dense(tc), tprobs=dense(tp), eq=np.asarray(eq, dtype=float))
    return out


def fit_request(case, keep):
    meth = case['builder']
    if meth == 'mle':
        meth = 'counts'
    elif meth not in BUILDERS:
        meth = 'missing'
    return {'op': 'C16.fit', 'rows': case['rows'], 'lag': case['lag'], 'sliding': case['sliding'],
            'trim': case['trim'], 'keep': keep, 'by_name': bool(case['by_name']) or meth == 'missing',
            'method': meth, 'max_n': case['max_n']}


ERRKIND = {'DataInvalid': 'data-invalid', 'ValueError': 'value-error', 'AttributeError': 'attribute-error',
           'IndexError': 'index-error'}


def fit_real(case):
    with quiet():
        m, err = run_estimator(case)
        pipe = run_pipeline(case)
    return m, err, pipe


def check_fit(ctx, case, m, err, pipe, model):
    """predicate first (estimator vs hand-composed pipeline), then model vs estimator"""
    rows, lag = case['rows'], case['lag']
    tags = ['fit', 'lag=%d' % lag, 'builder=%s' % case['builder'], 'trim' if case['trim'] else 'no-trim',
            'sliding' if case['sliding'] else 'strided', 'explicit-n' if case['max_n'] is not None else 'inferred-n',
            case['form'], 'by-name' if case['by_name'] else 'callable', 'assigns-%s' % case.get('dtype', 'int64')]
    if case.get('family'):
        tags.append('fit-family=%s' % case['family'])
    if case.get('via'):
        tags.append('via-%s' % case['via'])
    if case.get('np_lag'):
        tags.append('lag-numpy-int')
    if case.get('positional'):
        tags.append('positional-args')
    if model is None:
        tags.append('model-skipped-size')
    nontrivial = False
    if 'raw' in pipe:
        n = pipe['raw'].shape[0]
        nontrivial = int(pipe['raw'].sum()) > 0
        if not np.array_equal(ref_counts(rows, lag, True, n), ref_counts(rows, lag, False, n)):
            tags.append('sliding-flag-matters')
        if lag > 1 and not np.array_equal(ref_counts(rows, lag, case['sliding'], n),
                                          ref_counts(rows, 1, case['sliding'], n)):
            tags.append('lag-matters')
        inferred = max([x for r in rows for x in r if x != -1], default=-1) + 1
        if case['max_n'] is not None and case['max_n'] != inferred:
            tags.append('state-count-matters')
        if case['trim'] and 'mapping' in pipe and len(pipe['mapping']) < n:
            tags.append('trimming-removes-states')
    if 'error' in pipe:
        tags.append('raises-%s-%s' % (pipe['stage'], pipe['error']))
    ctx.case(case, nontrivial=nontrivial, tags=tags)

    rep = dict(case, kind='fit')
    # --- predicate
    if ('error' in pipe) != (err is not None):
        ctx.violation('MSM(...).fit %s but the hand-composed pipeline %s' % (
            'raised %s' % err if err else 'returned',
            'raised %s (%s stage)' % (pipe['error'], pipe['stage']) if 'error' in pipe else 'returned'), rep)
        return None
    if err is not None:
        if err != pipe['error']:
            ctx.violation('MSM(...).fit raised %s, the pipeline raised %s' % (err, pipe['error']), rep)
            return None
    else:
        got = {'tcounts': dense(m.tcounts_), 'tprobs': dense(m.tprobs_),
               'eq': np.asarray(m.eq_probs_, dtype=float), 'mapping': mapping_dict(m.mapping_)}
        bad = None
        if got['mapping'] != pipe['mapping']:
            bad = 'mapping_'
        elif got['tcounts'].shape != pipe['tcounts'].shape or not np.array_equal(got['tcounts'], pipe['tcounts']):
            bad = 'tcounts_'
        elif not close(got['tprobs'], pipe['tprobs']):
            bad = 'tprobs_'
        elif not close(got['eq'], pipe['eq']):
            bad = 'eq_probs_'
        if bad in ('tprobs_', 'eq_probs_'):
            # a float difference: is the pipeline itself reproducible on this input?
            with quiet():
                again = run_pipeline(case)
            if 'error' in again or not close(again['tprobs'], pipe['tprobs']) or not close(again['eq'], pipe['eq']):
                ctx.skip('builder output not reproducible between two identical calls')
                bad = None
        if bad:
            ctx.violation('MSM(...).fit %s differs from the pipeline assigns_to_counts -> %sbuilder %s '
                          'with the same lag/sliding_window/max_n_states' % (
                              bad, 'trim_disconnected -> ' if case['trim'] else '', case['builder']),
                          dict(rep, attribute=bad))
            return None
    # --- model
    if model is None:
        return m
    if 'raw' not in pipe:
        want = ERRKIND.get(pipe['error'])
        if model.get('error') != want:
            ctx.disagreement('Model.Msm mkMSM/fit vs MSM: real raised %s, model %s' % (pipe['error'], model),
                             dict(rep, model=model))
        return m
    if 'ok' not in model:
        ctx.disagreement('Model.Msm fit returned %s where the real counting stage succeeded' % model,
                         dict(rep, model=model))
        return m
    if err is not None:
        return m          # the builder parameter raised (mle guard); counting stage agreed
    mo = model['ok']
    mm = {int(k): int(v) for k, v in mo['mapping']}
    if mm != got['mapping'] or [int(k) for k, _ in mo['mapping']] != list(got['mapping'].keys()):
        ctx.disagreement('Model.Msm fit mapping vs MSM.mapping_', dict(rep, model=mo['mapping']))
        return m
    st = mo['stored']
    if (st['lag_time'], st['trim'], st['sliding_window']) != (m.lag_time, bool(m.trim), bool(m.sliding_window)):
        ctx.disagreement('Model.Msm mkMSM stored attributes vs MSM.__init__', dict(rep, model=st))
        return m
    f = mo['fit']
    if not rat_mat_close(f['tcounts'], got['tcounts'], 0.0):
        ctx.disagreement('Model.Msm fit tcounts vs MSM.tcounts_', dict(rep, model=f['tcounts']))
    elif 'tprobs' in f and not rat_mat_close(f['tprobs'], got['tprobs']):
        ctx.disagreement('Model.Msm fit tprobs vs MSM.tprobs_', dict(rep, model=f['tprobs']))
    elif 'eq' in f and not (len(f['eq']) == len(got['eq']) and
                            all(rat_close(q, x) for q, x in zip(f['eq'], got['eq']))):
        ctx.disagreement('Model.Msm fit eq vs MSM.eq_probs_', dict(rep, model=f['eq']))
    return m


def gen_rows(rng, long=True, dense_counts=False):
    nstates = int(rng.integers(1, 5 if dense_counts else 7))
    nrows = int(rng.integers(1, 6))
    rows = []
    for _ in range(nrows):
        if dense_counts:
            L = int(rng.integers(30, 61))
        else:
            L = int(rng.integers(6, 25)) if (long and rng.random() < 0.8) else int(rng.integers(1, 7))
        if rng.random() < 0.3 and nstates > 2:
            # a trajectory confined to a subset of the states (gives the trimming something to do)
            sub = rng.choice(nstates, size=2, replace=False)
            rows.append([int(x) for x in rng.choice(sub, size=L)])
        else:
            rows.append([int(x) for x in rng.integers(0, nstates, size=L)])
    return rows


def gen_fit_case(rng, lag, builder, trim, sliding, explicit):
    # the pure-Python Prinz iteration needs 10^5 sweeps (several seconds) when a count matrix has
    # one-directional pairs; most mle cases therefore get long trajectories over few states
    rows = gen_rows(rng, dense_counts=(builder == 'mle' and rng.random() < 0.85))
    mx = max(max(r) for r in rows) + 1
    max_n = int(mx + rng.integers(0, 3)) if explicit else None
    form = 'ragged' if rng.random() < 0.5 else 'padded'
    return {'rows': rows, 'lag': lag, 'builder': builder, 'trim': trim, 'sliding': sliding,
            'max_n': max_n, 'form': form,
            'by_name': bool(rng.random() < 0.4), 'positional': bool(rng.random() < 0.3),
            'dtype': pick_dtype(rng, form),
            'np_lag': (str(rng.choice(['int64', 'int32'])) if rng.random() < 0.15 else False),
            'via': ('from_assignments' if rng.random() < 0.15 else None)}


def keep_states(case):
    """kept states observed from the real trimming stage (the model's trimming parameter)"""
    if not case['trim']:
        return []
    from enspara.msm.transition_matrices import assigns_to_counts, trim_disconnected
    try:
        with quiet():
            C = assigns_to_counts(make_assigns(case['rows'], case['form'], case.get('dtype', 'int64')), lag_time=case['lag'],
                                  max_n_states=case['max_n'], sliding_window=case['sliding'])
            mp, _ = trim_disconnected(C)
        return sorted(int(v) for v in mp.to_original.values())
    except Exception:  # noqa
        return []


def section_fit(ctx):
    rng = ctx.rng
    cases = []
    reps = ctx.n(3, 60)
    for _ in range(reps):
        for lag, b, trim, sl, ex in itertools.product((1, 2, 3, 4), BUILDERS, (False, True),
                                                      (True, False), (False, True)):
            cases.append(gen_fit_case(rng, lag, b, trim, sl, ex))
    # error branches of the constructor / counting stage
    for _ in range(ctx.n(6, 40)):
        c = gen_fit_case(rng, int(rng.integers(1, 4)), 'normalize', bool(rng.integers(0, 2)),
                         bool(rng.integers(0, 2)), True)
        k = int(rng.integers(0, 3))
        if k == 0:
            c['lag'] = 0
        elif k == 1:
            mx = max(max(r) for r in c['rows']) + 1
            c['max_n'] = max(0, mx - 1 - int(rng.integers(0, 2)))
        else:
            c['builder'], c['by_name'] = 'no_such_builder', True
        cases.append(c)
    fitted = run_fit_cases(ctx, cases)
    fitted += run_fit_cases(ctx, gen_family_cases(ctx))
    return fitted


def model_affordable(case):
    """the Lean count matrix is a filter over all pairs per entry: n^2 * frames steps"""
    frames = sum(len(r) for r in case['rows'])
    nst = max(max([x for r in case['rows'] for x in r], default=0) + 1, case['max_n'] or 0)
    return nst * nst * max(frames, 1) <= 1500000


def run_fit_cases(ctx, cases):
    idx = [i for i, c in enumerate(cases) if model_affordable(c)]
    resp = ctx.driver([fit_request(cases[i], keep_states(cases[i])) for i in idx])
    models = dict(zip(idx, resp))
    fitted = []
    for i, c in enumerate(cases):
        m, err, pipe = fit_real(c)
        m = check_fit(ctx, c, m, err, pipe, models.get(i))
        if m is not None and err is None:
            fitted.append((c, m))
    return fitted


FAMILIES = ('big-states', 'many-short', 'trim-to-one', 'shorter-than-lag', 'all-minus-one',
            'one-minus-one-row', 'interior-minus-one', 'pendant-self-isolated')


def gen_family_case(rng, family, big_n=300):
    c = {'lag': int(rng.integers(1, 4)), 'builder': str(rng.choice(BUILDERS)), 'trim': bool(rng.integers(0, 2)),
         'sliding': bool(rng.integers(0, 2)), 'max_n': None, 'form': 'ragged' if rng.random() < 0.5 else 'padded',
         'by_name': bool(rng.random() < 0.4), 'positional': bool(rng.random() < 0.3), 'dtype': 'int64',
         'np_lag': False, 'via': ('from_assignments' if rng.random() < 0.2 else None), 'family': family}
    if family == 'big-states':
        n = big_n
        walk = (int(rng.integers(0, n)) + np.cumsum(rng.integers(1, 4, size=8 * n))) % n
        rows = [[int(x) for x in walk]]
        for _ in range(100):
            st = int(rng.integers(0, n))
            rows.append([(st + k * int(rng.integers(1, 3))) % n for k in range(int(rng.integers(2, 5)))])
        # a few states beyond the walk that are reached once and never left (trimmed away)
        rows.append([int(walk[5]), n, n + 1])
        c.update(rows=rows, builder=str(rng.choice(['normalize', 'transpose', 'transpose'])),
                 dtype=str(rng.choice(WIDE_DTYPES)), form='ragged',
                 max_n=(None if rng.random() < 0.5 else n + 2 + int(rng.integers(0, 40))))
    elif family == 'many-short':
        nst = int(rng.integers(2, 7))
        rows = [[int(x) for x in rng.integers(0, nst, size=int(rng.integers(1, 5)))]
                for _ in range(int(rng.integers(150, 400)))]
        c.update(rows=rows, builder=str(rng.choice(['normalize', 'transpose'])), lag=int(rng.integers(1, 3)),
                 dtype=str(rng.choice(ASSIGN_DTYPES)), form='ragged')
    elif family == 'trim-to-one':
        s0 = int(rng.integers(0, 4))
        others = [x for x in range(5) if x != s0]
        tail = [int(x) for x in rng.permutation(others)[:int(rng.integers(1, 4))]]
        c.update(rows=[[s0] * int(rng.integers(4, 9)) + tail], trim=True, lag=1,
                 max_n=(None if rng.random() < 0.5 else 6))
    elif family == 'shorter-than-lag':
        L = int(rng.integers(1, 4))
        c.update(rows=[[int(x) for x in rng.integers(0, 3, size=L)]], lag=L + int(rng.integers(0, 3)),
                 max_n=(None if rng.random() < 0.5 else 4))
    elif family == 'all-minus-one':
        c.update(rows=[[-1] * int(rng.integers(1, 6)) for _ in range(int(rng.integers(1, 4)))],
                 max_n=(None if rng.random() < 0.4 else int(rng.integers(1, 4))),
                 builder=str(rng.choice(['normalize', 'transpose'])))
    elif family == 'one-minus-one-row':
        rows = gen_rows(rng)
        rows.insert(int(rng.integers(0, len(rows) + 1)), [-1] * int(rng.integers(1, 8)))
        c.update(rows=rows, builder=str(rng.choice(['normalize', 'transpose'])))
    elif family == 'interior-minus-one':
        rows = gen_rows(rng)
        rows = [[(-1 if (len(r) > 2 and rng.random() < 0.2) else x) for x in r] for r in rows]
        if all(x == -1 for r in rows for x in r):
            rows[0][0] = 0
        c.update(rows=rows, builder=str(rng.choice(['normalize', 'transpose'])))
    elif family == 'pendant-self-isolated':
        core = [int(x) for x in rng.integers(0, 2, size=int(rng.integers(8, 16)))]
        k = int(rng.integers(1, len(core) - 1))
        core = core[:k] + [1, 2, 1] + core[k:]          # pendant state 2: one partner, no self count
        c.update(rows=[core, [3] * int(rng.integers(2, 6))],     # state 3: self counts only; 4, 5: never seen
                 max_n=(None if rng.random() < 0.3 else 6))
    else:
        raise ValueError(family)
    return c


def gen_family_cases(ctx):
    rng = ctx.rng
    cases = []
    for fam in FAMILIES:
        if fam == 'big-states':
            sizes = [300, 520] if not ctx.thorough else [300] * 6 + [520] * 4 + [1100]
            cases += [gen_family_case(rng, fam, n) for n in sizes]
        else:
            cases += [gen_family_case(rng, fam) for _ in range(ctx.n(6, 80))]
    return cases


# ----------------------------------------------------------------------------- save / load

def check_saveload(ctx, case, m, model=None):
    from enspara.msm import MSM
    rep = dict(case, kind='saveload')
    base = tempfile.mkdtemp(prefix='c16_msm_')
    try:
        path = os.path.join(base, 'model')
        stage = 'save and load'
        try:
            with quiet():
                if case.get('filenames'):
                    m.save(path, mapping_='map.csv', tcounts_='C.mtx', tprobs_='T.mtx',
                           eq_probs_='pops.dat', config='cfg.pkl')
                else:
                    m.save(path)
                m2 = MSM.load(path)
                if case.get('resave'):
                    # second generation: what was loaded is saved and loaded again
                    stage = 'second save of the loaded model'
                    path2 = os.path.join(base, 'model2')
                    m2.save(path2)
                    m2 = MSM.load(path2)
        except Exception as e:  # noqa
            ctx.violation('MSM.save / MSM.load raised %s (%s): %s' % (type(e).__name__, stage, str(e)[:200]), rep)
            return
    finally:
        shutil.rmtree(base, ignore_errors=True)
    ctx.case(rep, nontrivial=True, tags=['saveload', 'saveload-%s' % case['builder']]
             + (['saveload-custom-filenames'] if case.get('filenames') else [])
             + (['saveload-second-generation'] if case.get('resave') else []) + [
                                         'saveload-states=%s' % (lambda k: '>255' if k > 255 else ('4+' if k >= 4 else str(k)))(dense(m.tcounts_).shape[0])])
    bad = []
    if m2.lag_time != m.lag_time or type(m2.lag_time) is not type(m.lag_time):  # pickle keeps the type
        bad.append('lag_time')
    if bool(m2.sliding_window) != bool(m.sliding_window):
        bad.append('sliding_window')
    if bool(m2.trim) != bool(m.trim):
        bad.append('trim')
    if getattr(m2.method, '__name__', None) != m.method.__name__ or \
            getattr(m2.method, '__module__', None) != m.method.__module__:
        bad.append('method')
    c1, c2 = dense(m.tcounts_), dense(m2.tcounts_)
    if c1.shape != c2.shape or not np.array_equal(c1, c2):
        bad.append('tcounts_')
    p1, p2 = dense(m.tprobs_), dense(m2.tprobs_)
    if p1.shape != p2.shape or not np.array_equal(p1, p2):
        bad.append('tprobs_ (max abs diff %.3g)' % (np.max(np.abs(p1 - p2)) if p1.shape == p2.shape else -1))
    e1, e2 = np.asarray(m.eq_probs_, dtype=float), np.asarray(m2.eq_probs_, dtype=float)
    if e1.shape != e2.shape or not np.array_equal(e1, e2, equal_nan=True):
        bad.append('eq_probs_')
    if mapping_dict(m.mapping_) != mapping_dict(m2.mapping_):
        bad.append('mapping_')
    if bad:
        ctx.violation('MSM.load(MSM.save()) is not the model that was saved: %s differ' % ', '.join(bad),
                      dict(rep, attributes=bad))
        return
    if np.isnan(e1).any():
        ctx.skip('populations are nan (no transition counted): __eq__ not asked')
    else:
        with quiet():
            eq1, eq2 = (m2 == m), (m == m2)
        if not (eq1 and eq2):
            ctx.violation('all attributes of MSM.load(MSM.save()) are equal but MSM.__eq__ says different', rep)
            return
    if model is not None:
        ok = model.get('ok')
        if not ok or ok['lag_time'] != m2.lag_time or ok['trim'] != bool(m2.trim) or \
                ok['sliding_window'] != bool(m2.sliding_window) or ok['method'] != m2.method.__name__ or \
                {int(k): int(v) for k, v in ok['mapping']} != mapping_dict(m2.mapping_) or not ok['mapping_eq']:
            ctx.disagreement('Model.Msm save/load vs MSM.save/MSM.load', dict(rep, model=model))


def saveload_request(case, m):
    mp = mapping_dict(m.mapping_)
    return {'op': 'C16.saveload', 'lag': case['lag'], 'sliding': case['sliding'], 'trim': case['trim'],
            'method': case['builder'], 'max_n': case['max_n'],
            'pairs': [[o, t] for t, o in mp.items()]}


def check_save_force(ctx, case, m):
    """save(path, force=True) over an existing model directory (docstring: overwrite it)"""
    from enspara.msm import MSM
    rep = dict(case, kind='saveforce')
    base = tempfile.mkdtemp(prefix='c16_msm_')
    try:
        path = os.path.join(base, 'model')
        ctx.case(rep, nontrivial=True, tags=['saveload-force-overwrite'])
        try:
            with quiet():
                m.save(path)
                m.save(path, force=True)
                m2 = MSM.load(path)
        except Exception as e:  # noqa
            ctx.violation('MSM.save(path, force=True) over an existing model directory raised %s' % type(e).__name__, rep)
            return
        if mapping_dict(m2.mapping_) != mapping_dict(m.mapping_) or not np.array_equal(dense(m2.tprobs_), dense(m.tprobs_)):
            ctx.violation('MSM.save(force=True) then load gives a different model', rep)
    finally:
        shutil.rmtree(base, ignore_errors=True)


def section_saveload(ctx, fitted):
    step = ctx.n(2, 2)
    sel = []
    for k, (c, m) in enumerate(fitted[::step]):
        c = dict(c, filenames=(k % 5 == 1), resave=(k % 4 == 2))
        sel.append((c, m))
    # the size / degenerate families always take part
    sel += [(dict(c, filenames=False, resave=True), m) for c, m in fitted[1::step] if c.get('family')]
    resp = ctx.driver([saveload_request(c, m) for c, m in sel])
    for (c, m), r in zip(sel, resp):
        check_saveload(ctx, c, m, r)
    for c, m in fitted[:ctx.n(2, 10)]:
        check_save_force(ctx, c, m)


# ----------------------------------------------------------------------------- TrimMapping

def check_mapping(ctx, case, model):
    from enspara.msm.transition_matrices import TrimMapping
    pairs = [tuple(p) for p in case['pairs']]
    rep = dict(case, kind='mapping')
    ctx.case(rep, nontrivial=len(pairs) > 1, tags=['mapping', 'mapping-size=%d' % min(len(pairs), 5),
                                                   'mapping-sorted' if pairs == sorted(pairs) else 'mapping-unsorted'])
    tm = TrimMapping(pairs)
    buf = io.StringIO()
    tm.write(buf)
    text = buf.getvalue()
    try:
        back = TrimMapping.read(io.StringIO(text))
    except Exception as e:  # noqa
        ctx.violation('TrimMapping.read(TrimMapping.write()) raised %s' % type(e).__name__, rep)
        return
    want = {t: o for o, t in pairs}
    if mapping_dict(back) != want or {int(k): int(v) for k, v in back.to_mapped.items()} != {o: t for o, t in pairs}:
        ctx.violation('TrimMapping written and read back maps different state ids', dict(rep, got=mapping_dict(back)))
        return
    if not (back == tm):
        ctx.violation('TrimMapping written and read back is not == the original', rep)
        return
    lines = [ln.split(',') for ln in text.replace('\r\n', '\n').split('\n') if ln]
    ok = model.get('ok')
    if not ok or ok['csv'] != lines or {int(k): int(v) for k, v in ok['read']} != mapping_dict(back) or \
            not ok['eq'] or [[int(a), int(b)] for a, b in ok['to_original']] != [[t, o] for t, o in tm.to_original.items()]:
        ctx.disagreement('Model.Msm TrimMapping write/read vs the real TrimMapping', dict(rep, model=model, text=text))


def gen_mapping(rng):
    k = int(rng.integers(1, 9))
    hi = int(rng.choice([10, 50, 10 ** 6]))
    orig = sorted(int(x) for x in rng.choice(hi, size=min(k, hi), replace=False))
    mapped = list(range(len(orig)))
    mode = rng.random()
    pairs = list(zip(orig, mapped))
    if mode < 0.4:
        pass                                      # as trim_disconnected builds it
    elif mode < 0.7:
        rng.shuffle(pairs)                        # same map, different insertion order
    else:
        perm = [int(x) for x in rng.permutation(len(orig))]
        pairs = list(zip(orig, perm))             # not monotone
        rng.shuffle(pairs)
    return {'pairs': [[int(o), int(t)] for o, t in pairs]}


def section_mapping(ctx):
    cases = [gen_mapping(ctx.rng) for _ in range(ctx.n(150, 4000))]
    resp = ctx.driver([{'op': 'C16.mapping', 'pairs': c['pairs']} for c in cases])
    for c, r in zip(cases, resp):
        check_mapping(ctx, c, r)


# ----------------------------------------------------------------------------- eigenspectrum

def normalise_rows(A):
    return A / A.sum(axis=1, keepdims=True)


def gen_T(rng, kind, n):
    if kind == 'dense':
        return normalise_rows(rng.random((n, n)) + 0.05)
    if kind == 'cyclic':
        eps = float(rng.choice([0.02, 0.1, 0.3]))
        P = np.roll(np.eye(n), 1, axis=1)
        return normalise_rows((1 - eps) * P + eps * (rng.random((n, n)) + 0.05))
    if kind == 'bipartite':
        half = max(1, n // 2)
        A = np.full((n, n), 0.02) + 0.02 * rng.random((n, n))
        A[:half, half:] += rng.random((half, n - half)) + 0.5
        A[half:, :half] += rng.random((n - half, half)) + 0.5
        return normalise_rows(A)
    if kind == 'reversible':
        A = rng.random((n, n)) + 0.05
        return normalise_rows(A + A.T)
    if kind == 'ring':
        stay = float(rng.choice([0.5, 0.25, 0.125]))
        P = np.roll(np.eye(n), 1, axis=1)
        return stay * np.eye(n) + (1 - stay) / 2 * (P + P.T)
    if kind == 'two':
        a, b = (int(x) / 16.0 for x in rng.integers(1, 16, size=2))
        return np.array([[1 - a, a], [b, 1 - b]])
    if kind in ('metastable', 'twin-blocks'):
        return normalise_rows(gen_W(rng, kind, n))
    if kind == 'single':
        return np.array([[1.0]])
    raise ValueError(kind)


def gen_W(rng, kind, n):
    """symmetric weight matrix of a reversible chain with two blocks coupled by a tiny weight: the
    second eigenvalue is 1 - O(coupling); stationary distribution = row sums / total (closed form).
    'twin-blocks': the two blocks are copies of each other, so the spectrum comes in pairs split by
    O(coupling) (nearly degenerate eigenvalues)."""
    half = max(1, n // 2)
    eps = float(rng.choice([1e-5, 1e-6, 1e-7, 1e-8]))
    W = np.zeros((n, n))
    A = rng.random((half, half)) + 0.1
    A = A + A.T
    W[:half, :half] = A
    if kind == 'twin-blocks' and n == 2 * half:
        W[half:, half:] = A
    else:
        B = rng.random((n - half, n - half)) + 0.1
        W[half:, half:] = B + B.T
    i, j = int(rng.integers(0, half)), int(rng.integers(half, n))
    W[i, j] = W[j, i] = eps
    return W


EIG_KINDS = ('dense', 'cyclic', 'bipartite', 'reversible', 'ring', 'two')
EXTRA_EIG_KINDS = ('perm', 'metastable', 'twin-blocks', 'single')


def gen_eig_case(rng, kind=None):
    kind = kind or str(rng.choice(EIG_KINDS + EXTRA_EIG_KINDS))
    n = 2 if kind == 'two' else (1 if kind == 'single' else int(rng.integers(2, 9)))
    if kind == 'twin-blocks':
        n = 2 * int(rng.integers(1, 5))
    extra = {}
    if kind == 'perm':
        # integer dtype: a single n-cycle (irreducible; unique stationary distribution, the other
        # unit-modulus eigenvalues have real part < 1)
        order = [int(x) for x in rng.permutation(n)]
        T = np.zeros((n, n))
        for i in range(n):
            T[order[i], order[(i + 1) % n]] = 1
        dtype = 'int64'
    elif kind in ('metastable', 'twin-blocks'):
        W = gen_W(rng, kind, n)
        T = normalise_rows(W)
        extra['pi'] = (W.sum(axis=1) / W.sum()).tolist()      # closed form for a reversible chain
        dtype = 'float64'
    elif kind == 'single':
        T, dtype = np.array([[1.0]]), 'float64'
    else:
        T = gen_T(rng, kind, n)
        dtype = 'float32' if rng.random() < 0.25 else 'float64'
        if dtype == 'float32':
            T = T.astype(np.float32).astype(np.float64)
    r = rng.random()
    if kind == 'single':
        n_eigs = None if r < 0.7 else 2            # n_eigs=1 is refused by the guard
    else:
        n_eigs = None if r < 0.4 else (int(rng.integers(2, n + 1)) if r < 0.9 else n + 2)
    return dict({'T': T.tolist(), 'kind_T': kind, 'n_eigs': n_eigs, 'left': bool(rng.random() < 0.8),
                 'form': str(rng.choice(['dense', 'dense', 'csr', 'coo'])), 'dtype': dtype,
                 'n_eigs_np': bool(n_eigs is not None and rng.random() < 0.3)}, **extra)


def eig_arg(case):
    """the matrix in the dtype handed to the library (float32 values are stored exactly in the case)"""
    return np.array(case['T'], dtype=np.dtype(case.get('dtype', 'float64')))


def eig_sensitivity(M, rng_seed=0):
    """eigenvalues of M (sorted by descending real part) with a bound on what rounding can do to each.

    Two estimates, the larger is used: (a) first-order perturbation theory, eps * ||M|| / s_k with
    s_k = |y_k^H x_k| / (|y_k| |x_k|) from the left/right eigenvectors (s_k -> 0 for defective or nearly
    defective eigenvalues: Jordan blocks of tiny count matrices with zero / absorbing rows); (b) the
    observed movement of the spectrum when M is re-solved with a random perturbation of norm 1e-13.
    Returns (values, bounds)."""
    import scipy.linalg
    M = np.asarray(M, dtype=float)
    n = M.shape[0]
    w, vl, vr = scipy.linalg.eig(M, left=True, right=True)
    nrm = max(1.0, float(np.linalg.norm(M, 2)))
    s = np.abs(np.sum(np.conj(vl) * vr, axis=0)) / np.maximum(
        np.linalg.norm(vl, axis=0) * np.linalg.norm(vr, axis=0), 1e-300)
    first_order = 100 * np.finfo(float).eps * nrm / np.maximum(s, 1e-300)
    order = np.argsort(-w.real, kind='stable')
    w, first_order = w[order], first_order[order]
    D = np.random.default_rng(rng_seed).normal(size=(n, n))
    D *= 1e-13 / max(np.linalg.norm(D, 2), 1e-300)
    w2 = np.linalg.eigvals(M + D)
    # movement of each eigenvalue = distance to the nearest eigenvalue of the perturbed matrix
    moved = np.array([np.min(np.abs(w2 - z)) for z in w]) if n else np.zeros(0)
    # (a) alone cries wolf for semi-simple multiple eigenvalues (symmetric chains: the eigenvectors inside
    # the eigenspace are arbitrary, y^H x can be tiny although the eigenvalue is perfectly conditioned);
    # the experiment (b) uses a perturbation 1000 times larger than rounding, so 10 * (b) is already a
    # conservative bound there.  (a) is kept when it agrees with (b) within a factor 1e3.
    bound = 10 * moved + 1e-14
    agree = first_order <= 1e3 * bound
    return w, np.where(agree, np.maximum(first_order, bound), bound)


def stationary(T):
    n = T.shape[0]
    A = np.vstack([T.T - np.eye(n), np.ones((1, n))])
    b = np.zeros(n + 1)
    b[-1] = 1
    return np.linalg.lstsq(A, b, rcond=None)[0]


def eig_request(case):
    import scipy.linalg
    T = eig_arg(case)
    with quiet():
        vals, vecs = scipy.linalg.eig(T.T if case['left'] else T)
    vals = np.asarray(vals, dtype=complex)
    vecs = np.asarray(vecs, dtype=complex)
    return {'op': 'C16.eigpost', 'n': T.shape[0], 'n_eigs': case['n_eigs'],
            'vals': [[frac(z.real), frac(z.imag)] for z in vals],
            'cols': [[[frac(z.real), frac(z.imag)] for z in vecs[:, k]] for k in range(vecs.shape[1])]}, vals


def check_eig(ctx, case, model, raw_vals):
    import scipy.sparse
    from enspara.msm.transition_matrices import eigenspectrum
    T = np.array(case['T'], dtype=float)       # float64 view for the oracles (exact for every dtype used)
    Targ = eig_arg(case)
    n = T.shape[0]
    arg = {'dense': Targ, 'csr': scipy.sparse.csr_matrix(Targ), 'coo': scipy.sparse.coo_matrix(Targ)}[case['form']]
    rep = dict(case, kind='eig')
    # single-precision input is decomposed in single precision (also by the unchanged code)
    f = 3e4 if case.get('dtype') == 'float32' else 1.0
    tight = 1e-5 if case.get('dtype') == 'float32' else 1e-12
    mu, mu_bound = eig_sensitivity(T)          # independent of the library's call, with rounding sensitivity
    # the eigenvector of eigenvalue one is determined to about machine-eps / gap only (gap = distance of the
    # second eigenvalue from one): comparisons of the vector itself are conditioned on it, residuals are not
    re_sorted = np.sort(mu.real)[::-1]
    gap = float(1 - re_sorted[1]) if n > 1 else 1.0
    vec_tol = 1e-13 / max(gap, 1e-12)
    has_complex = bool(np.any(np.abs(mu.imag) > 1e-9))
    has_negative = bool(np.any((np.abs(mu.imag) <= 1e-9) & (mu.real < -1e-9)))
    ctx.case(rep, nontrivial=True,
             tags=['eig', 'eig-%s' % case['kind_T'], 'eig-n=%d' % n, 'eig-form=%s' % case['form'],
                   'eig-left' if case['left'] else 'eig-right', 'eig-dtype=%s' % case.get('dtype', 'float64'),
                   'eig-n_eigs=%s' % ('None' if case['n_eigs'] is None else
                                      ('>n' if case['n_eigs'] > n else ('n' if case['n_eigs'] == n else '<n')))]
             + (['eig-complex-pair'] if has_complex else []) + (['eig-negative'] if has_negative else [])
             + (['eig-gap<1e-4'] if gap < 1e-4 else []) + (['eig-gap<1e-6'] if gap < 1e-6 else [])
             + (['eig-n_eigs-numpy-int'] if case.get('n_eigs_np') else [])
             + (['eig-near-degenerate-pair'] if n > 2 and np.min(np.diff(-re_sorted)) < 1e-6 else []))
    try:
        with quiet():
            vals, vecs = eigenspectrum(arg, n_eigs=(np.int64(case['n_eigs']) if case.get('n_eigs_np') else case['n_eigs']),
                                       left=case['left'])
    except Exception as e:  # noqa
        ctx.violation('eigenspectrum raised %s on an ergodic transition matrix' % type(e).__name__, rep)
        return
    vals, vecs = np.asarray(vals), np.asarray(vecs)
    k = n if case['n_eigs'] is None else min(case['n_eigs'], n)
    if np.iscomplexobj(vals) or np.iscomplexobj(vecs):
        ctx.violation('eigenspectrum returned complex arrays', rep)
        return
    if vals.shape != (k,) or vecs.shape != (n, k):
        ctx.violation('eigenspectrum returned shapes %s, %s for n=%d n_eigs=%s' % (vals.shape, vecs.shape, n, case['n_eigs']), rep)
        return
    if not np.all(np.isfinite(vals)) or not np.all(np.isfinite(vecs)):
        ctx.violation('eigenspectrum returned non-finite numbers', rep)
        return
    if np.any(vals[:-1] < vals[1:]):
        ctx.violation('eigenvalues are not in descending order', dict(rep, vals=vals.tolist()))
        return
    if abs(vals[0] - 1) > 1e-9 * f:
        ctx.violation('leading eigenvalue is %r, not one' % float(vals[0]), rep)
        return
    # mu is sorted by descending real part; each value is trusted to its own sensitivity bound
    # (large for defective / nearly defective eigenvalues, where two solvers legitimately differ)
    want, wtol = mu.real[:k], 1e-7 * f + 10 * mu_bound[:k]
    sens = 10 * mu_bound[:k] > 1e-4
    if np.any(sens):
        ctx.skip('eig: independent eigenvalue too sensitive to rounding (not compared), kind %s' % case['kind_T'])
    if np.any(~sens & (np.abs(vals - want) > wtol)):
        ctx.violation('returned eigenvalues are not the largest real parts of the spectrum', dict(rep, vals=vals.tolist(), want=want.tolist()))
        return
    v0 = vecs[:, 0]
    if abs(v0.sum() - 1) > 1e-9 * f:
        ctx.violation('first eigenvector sums to %r, not one' % float(v0.sum()), rep)
        return
    M = T if case['left'] else T.T            # v^T M = lambda v^T
    if case['left']:
        if case['kind_T'] in ('metastable', 'twin-blocks'):
            # closed form of a reversible chain: T = D^-1 W with W symmetric  =>  pi = diag(D) / sum
            # (T's rows are W's rows over the row sums, so W is recovered up to the row scaling)
            pi = np.array(case['pi'])
        else:
            pi = stationary(T)
        if np.max(np.abs(v0 @ T - v0)) > 1e-9 * f or np.max(np.abs(v0 - pi)) > 1e-8 * f + vec_tol or v0.min() < -1e-10 * f - vec_tol:
            ctx.violation('first left eigenvector is not the stationary distribution', dict(rep, v0=v0.tolist(), pi=pi.tolist()))
            return
    else:
        if np.max(np.abs(T @ v0 - v0)) > 1e-9 * f:
            ctx.violation('first right eigenvector is not an eigenvector for eigenvalue one', rep)
            return
    for j in range(1, k):
        v = vecs[:, j]
        scale = np.max(np.abs(v))
        if scale == 0:
            ctx.violation('eigenvector %d is zero' % j, rep)
            return
        # the library's own pair (vals[j], v) has a small residual whatever the conditioning, if the
        # eigenvalue is real; for a complex pair only the real part of the vector is returned, which lies
        # in the invariant plane of a +- ib, with b taken from the independent spectrum (to its sensitivity)
        A0 = M.T - vals[j] * np.eye(n)
        best = np.max(np.abs(A0 @ v)) / scale
        for z, zb in zip(mu, mu_bound):
            if abs(z.real - vals[j]) < 1e-6 * f + 10 * zb and abs(z.imag) > 0:
                res = np.max(np.abs(A0 @ (A0 @ v) + z.imag ** 2 * v)) / scale
                best = min(best, max(res - 10 * zb * (2 * abs(z.imag) + 1), 0.0))
        if not best <= 1e-7 * f:
            ctx.violation('vector %d is not (the real part of) an eigenvector for the returned eigenvalue '
                          '(residual %.3g)' % (j, best), dict(rep, column=j))
            return
    if case['kind_T'] == 'two':
        a, b = T[0, 1], T[1, 0]
        if abs(vals[1] - (1 - a - b)) > tight or (case['left'] and np.max(np.abs(v0 - np.array([b, a]) / (a + b))) > tight):
            ctx.violation('2-state chain: spectrum differs from the closed form (1, 1-a-b), pi=(b,a)/(a+b)', rep)
            return
    if case['kind_T'] in ('ring', 'perm') and np.max(np.abs(v0 - 1.0 / n)) > 1e-9 * f:
        ctx.violation('doubly stochastic chain: first eigenvector is not uniform', rep)
        return
    # --- model: the library's post-processing of the raw decomposition
    ok = model.get('ok')
    if not ok:
        ctx.disagreement('Model.Msm eigPost returned %s, eigenspectrum returned values' % model, dict(rep, model=model))
        return
    mvals = [float(unfrac(q)) for q in ok['vals']]
    if len(mvals) != k or not np.array_equal(np.array(mvals), vals):
        ctx.disagreement('Model.Msm eigPost values vs eigenspectrum', dict(rep, model=mvals, real=vals.tolist()))
        return
    re = raw_vals.real
    for j in range(k):
        mcol = np.array([float(unfrac(q)) for q in ok['cols'][j]])
        tol = tight if j == 0 else 0.0
        if mcol.shape == (n,) and np.allclose(mcol, vecs[:, j], rtol=tol, atol=tol):
            continue
        idx = ok['order'][j]
        ties = [i for i in range(n) if re[i] == re[idx]]
        if len(ties) > 1 and j > 0:
            ctx.skip('equal real parts: column order inside the group is the sort routine\'s choice')
            continue
        ctx.disagreement('Model.Msm eigPost column %d vs eigenspectrum' % j, dict(rep, column=j, model=mcol.tolist()))
        return


def section_eig(ctx):
    rng = ctx.rng
    cases = [gen_eig_case(rng, kind) for kind in EIG_KINDS + EXTRA_EIG_KINDS for _ in range(ctx.n(4, 100))]
    cases += [gen_eig_case(rng) for _ in range(ctx.n(126, 4000))]
    reqs, raws = [], []
    for c in cases:
        r, raw = eig_request(c)
        reqs.append(r)
        raws.append(raw)
    resp = ctx.driver(reqs)
    for c, r, raw in zip(cases, resp, raws):
        check_eig(ctx, c, r, raw)
    # the n_eigs guard
    from enspara.msm.transition_matrices import eigenspectrum
    T = gen_T(rng, 'dense', 3)
    for bad in (1, 0, -1):
        try:
            with quiet():
                eigenspectrum(T, n_eigs=bad)
            got = 'returned'
        except ValueError:
            got = 'value-error'
        except Exception as e:  # noqa
            got = type(e).__name__
        r = ctx.driver([{'op': 'C16.eigpost', 'n': 3, 'n_eigs': bad, 'vals': [], 'cols': []}])[0]
        ctx.tag('eig-n_eigs<2')
        if r.get('error') != got:
            ctx.disagreement('Model.Msm resolveNEigs vs eigenspectrum(n_eigs=%d): real %s, model %s' % (bad, got, r),
                             {'kind': 'eig-guard', 'n_eigs': bad})


# ----------------------------------------------------------------------------- implied timescales

def check_timescales(ctx, case, model_nt):
    from enspara.msm import builders, implied_timescales
    from enspara.msm.transition_matrices import assigns_to_counts, trim_disconnected, eigenspectrum
    rows, lags = case['rows'], case['lags']
    a = make_assigns(rows, case['form'], case.get('dtype', 'int64'))
    builder = getattr(builders, case['builder'])
    rep = dict(case, kind='timescales')
    n_states = max(max(r) for r in rows) + 1
    # documented: n_times=None -> 10% of the number of states (+1), never more than n_states - 1
    py_nt = min(int(np.floor(n_states / 10.0)) + 1 if case['n_times'] is None else case['n_times'], n_states - 1)
    if py_nt != model_nt:
        ctx.disagreement('Model.Msm impNTimes=%d vs the documented number of timescales %d' % (model_nt, py_nt), rep)
        return
    ctx.case(rep, nontrivial=True, tags=['timescales', 'timescales-%s' % case['builder'],
                                         'timescales-n_times=%s' % ('None' if case['n_times'] is None else 'given'),
                                         'timescales-trim' if case['trim'] else 'timescales-no-trim',
                                         'timescales-sliding' if case['sliding'] else 'timescales-strided',
                                         'timescales-assigns-%s' % case.get('dtype', 'int64'),
                                         'timescales-metastable' if case.get('metastable') else 'timescales-mixing',
                                         'timescales-lags-%s' % case.get('lags_kind', 'list')])
    # by hand: fitted T per lag, the library's own (separately checked) eigenspectrum, and an independent one
    expected, indep = [], []
    try:
        with quiet():
            for lag in lags:
                C = assigns_to_counts(a, lag_time=lag, max_n_states=n_states, sliding_window=case['sliding'])
                if case['trim']:
                    _, C = trim_disconnected(C)
                _, T, _ = builder(C)
                Td = dense(T)
                k = model_nt + 1
                vals, _ = eigenspectrum(T, n_eigs=k)
                expected.append(-lag / np.log(vals[1:]))
                w_all, bound_all = eig_sensitivity(Td)
                indep.append((lag, w_all.real[1:k], bound_all[1:k], bool(np.any(Td.sum(axis=1) == 0))))
    except Exception as e:  # noqa
        ctx.skip('pipeline by hand raised %s (builder guard)' % type(e).__name__)
        return
    try:
        with quiet():
            lags_arg = {'list': list(lags), 'tuple': tuple(lags), 'ndarray': np.array(lags)}[case.get('lags_kind', 'list')]
            got = implied_timescales(a, lags_arg, builder, n_times=case['n_times'],
                                     sliding_window=case['sliding'], trim=case['trim'])
    except Exception as e:  # noqa
        ctx.violation('implied_timescales raised %s where the pipeline by hand works' % type(e).__name__, rep)
        return
    got = np.asarray(got, dtype=float)
    if got.ndim != 2 or got.shape[0] != len(lags):
        ctx.violation('implied_timescales returned shape %s for %d lag times' % (got.shape, len(lags)), rep)
        return
    if not case['trim'] and got.shape[1] != model_nt:
        ctx.disagreement('Model.Msm impNTimes=%d vs implied_timescales columns=%d' % (model_nt, got.shape[1]), rep)
        return
    for i, lag in enumerate(lags):
        e = np.asarray(expected[i], dtype=float)
        if got[i].shape != e.shape or not np.allclose(got[i], e, rtol=1e-12, atol=0, equal_nan=True):
            ctx.violation('implied timescales for lag %d are not -lag/log(eigenvalue) of the fitted matrix' % lag,
                          dict(rep, lag=lag, got=got[i].tolist(), expected=e.tolist()))
            return
        # independent eigenvalues.  t = -lag / log(mu): a perturbation d of mu changes t by the relative
        # amount d / (mu |log mu|); d is the eigenvalue's own rounding sensitivity (eig_sensitivity), which is
        # large for the (nearly) defective eigenvalues of tiny count matrices.  Compared only where the
        # resulting uncertainty of t is small; everything else is skipped and counted.
        _, mu, bound, zero_rows = indep[i]
        for j in range(min(len(mu), got.shape[1])):
            if zero_rows:
                ctx.skip('timescales: fitted matrix has an all-zero row (independent eigenvalues not compared)')
                break
            if not 0 < mu[j] < 1:
                ctx.tag('timescales-nonpositive-eigenvalue')
                continue
            kappa = 1.0 / (mu[j] * abs(np.log(mu[j])))
            unc = kappa * (1e-10 + bound[j])               # relative uncertainty of t
            if mu[j] < 1e4 * bound[j] or unc > 1e-5:
                ctx.skip('timescales: independent eigenvalue too sensitive to rounding (defective / near one)')
                continue
            t = -lag / np.log(mu[j])
            if kappa > 1e3:
                ctx.tag('timescales-eigenvalue-within-1e-3-of-one')
            ctx.tag('timescales-independent-eigenvalue-compared')
            if not abs(got[i, j] - t) <= (1e-8 + 10 * unc) * abs(t):
                ctx.violation('implied timescale %d for lag %d differs from -lag/log of the independent eigenvalue'
                              % (j, lag), dict(rep, lag=lag, got=float(got[i, j]), expected=float(t),
                                               eigenvalue=float(mu[j]), sensitivity=float(bound[j])))
                return


def gen_timescales(rng, metastable=0):
    nstates = int(rng.integers(2, 7))
    rows = []
    if metastable:
        # two groups of two states, one crossing each way in `metastable` frames: slowest eigenvalue
        # about 1 - 4/metastable
        nstates = 4
        third = metastable // 3
        seg = [rng.integers(0, 2, size=third), 2 + rng.integers(0, 2, size=third), rng.integers(0, 2, size=third)]
        rows.append([int(x) for x in np.concatenate(seg)])
    else:
        for _ in range(int(rng.integers(1, 4))):
            L = int(rng.integers(25, 60))
            rows.append([int(x) for x in rng.integers(0, nstates, size=L)])
    rows[0][:nstates] = list(range(nstates))       # every state is visited
    form = 'ragged' if rng.random() < 0.5 else 'padded'
    trim = bool(rng.random() < 0.3)
    lags = [int(rng.integers(1, 5))] if trim else sorted({int(x) for x in rng.integers(1, 5, size=int(rng.integers(1, 4)))})
    r = rng.random()
    n_times = None if r < 0.3 else int(rng.integers(1, nstates + 2))
    return {'rows': rows, 'lags': lags, 'builder': str(rng.choice(BUILDERS if not metastable else ('transpose', 'normalize'))),
            'n_times': n_times, 'metastable': metastable,
            'sliding': bool(rng.random() < 0.6), 'trim': trim,
            'form': form, 'dtype': pick_dtype(rng, form),
            'lags_kind': str(rng.choice(['list', 'tuple', 'ndarray']))}


def timescales_request(case):
    n_states = max(max(r) for r in case['rows']) + 1
    return {'op': 'C16.ntimes', 'n_states': n_states, 'n_times': case['n_times']}


def section_timescales(ctx):
    cases = [gen_timescales(ctx.rng) for _ in range(ctx.n(60, 1500))]
    cases += [gen_timescales(ctx.rng, metastable=k) for k in ([3000, 30000] if not ctx.thorough else [3000] * 6 + [30000] * 4 + [300000])]
    resp = ctx.driver([timescales_request(c) for c in cases])
    for c, r in zip(cases, resp):
        check_timescales(ctx, c, int(r['ok']))


# ----------------------------------------------------------------------------- synthetic ensemble

P_KINDS = ('float64', 'float64', 'int64-onehot', 'int32-onehot', 'int-walkers', 'float32', 'list')


def ensemble_inputs(case):
    """(T as handed to the library before the container choice, init_pops as handed over,
    float64 views of both for the oracle).  Every listed dtype converts to float64 exactly."""
    T = np.array(case['T'], dtype=np.float32 if case.get('T_dtype') == 'float32' else np.float64)
    kind = case.get('p_kind', 'float64')
    if kind == 'list':
        p0 = [float(x) for x in case['p']]
    elif kind in ('int64-onehot', 'int-walkers'):
        p0 = np.array(case['p'], dtype=np.int64)
    elif kind == 'int32-onehot':
        p0 = np.array(case['p'], dtype=np.int32)
    elif kind == 'float32':
        p0 = np.array(case['p'], dtype=np.float32)
    else:
        p0 = np.array(case['p'], dtype=np.float64)
    return T, p0, T.astype(np.float64), np.asarray(p0, dtype=np.float64)


def check_ensemble(ctx, case, model):
    import scipy.sparse
    from enspara.msm.synthetic_data import synthetic_ensemble
    Targ, p0arg, T, p0 = ensemble_inputs(case)
    steps = case['n_steps']
    n = T.shape[0]
    pk, tk = case.get('p_kind', 'float64'), case.get('T_dtype', 'float64')
    arg = {'dense': Targ, 'csr': scipy.sparse.csr_matrix(Targ), 'coo': scipy.sparse.coo_matrix(Targ)}[case['form']]
    obs_w = None if case['obs'] is None else np.array(
        case['obs'], dtype=np.int64 if case.get('obs_kind') == 'int64' else np.float64)
    rep = dict(case, kind='ensemble')
    ctx.case(rep, nontrivial=steps > 1, tags=['ensemble', 'ensemble-steps=%d' % min(steps, 5),
                                              'ensemble-form=%s' % case['form'],
                                              'ensemble-init=%s' % pk, 'ensemble-T=%s' % tk,
                                              'ensemble-observable' if obs_w is not None else 'ensemble-populations'])
    # single-precision matrix AND single-precision start: the multiplication itself runs in float32
    # (also in the unchanged code); everything else must be float64-accurate
    tol = 2e-5 if (pk == 'float32' and tk == 'float32') else TOL
    scale = max(1.0, float(np.max(np.abs(p0)))) * (1.0 if obs_w is None else max(1.0, float(np.max(np.abs(obs_w)))) * n)

    def near(a, b):
        a, b = np.asarray(a, dtype=float), np.asarray(b, dtype=float)
        return a.shape == b.shape and bool(np.all(np.abs(a - b) <= tol * scale))
    try:
        with quiet():
            p, obs = synthetic_ensemble(arg, p0arg, steps, observable_per_state=obs_w)
    except Exception as e:  # noqa
        ctx.violation('synthetic_ensemble raised %s' % type(e).__name__, rep)
        return
    nmul = max(steps - 1, 0)
    # n multiplications by T, one at a time (float64), and p0 T^k through the matrix power
    seq = [p0.copy()]
    for _ in range(nmul):
        seq.append(seq[-1] @ T)
    seq = np.array(seq)
    powers = np.array([p0 @ np.linalg.matrix_power(T, k) for k in range(nmul + 1)])
    p, obs = np.asarray(p, dtype=float), np.asarray(obs, dtype=float)
    if p.shape != (n,) or not near(p, seq[-1]) or not near(p, powers[-1]):
        ctx.violation('synthetic_ensemble: final populations differ from p0 T^%d (init_pops %s, T %s)' % (nmul, pk, tk),
                      dict(rep, got=p.tolist()))
        return
    want = seq if obs_w is None else seq @ obs_w
    want2 = powers if obs_w is None else powers @ obs_w
    if obs.shape != want.shape or not near(obs, want) or not near(obs, want2):
        bad = [k for k in range(min(len(obs), len(want))) if not near(obs[k], want[k])] if obs.shape == want.shape else []
        ctx.violation('synthetic_ensemble: observation %s differs from p0 T^k%s (init_pops %s, T %s)' % (
            bad[:3] if bad else 'array shape', ' . observable' if obs_w is not None else '', pk, tk),
            dict(rep, got=obs.tolist(), expected=np.asarray(want).tolist()))
        return
    if ensemble_model_cost(case) > 3000:
        ctx.tag('ensemble-model-not-asked (cost)')
        return
    ok = model.get('ok')
    mtol = tol * scale
    if not ok or len(ok['p']) != n or not all(rat_close(q, x, mtol) for q, x in zip(ok['p'], p)):
        ctx.disagreement('Model.Msm syntheticEnsemble final populations vs synthetic_ensemble', dict(rep, model=model))
        return
    if obs_w is None and not rat_mat_close(ok['obs'], obs, mtol):
        ctx.disagreement('Model.Msm syntheticEnsemble observations vs synthetic_ensemble', dict(rep, model=ok['obs']))


def gen_ensemble(rng, p_kind=None):
    n = int(rng.integers(1, 6))
    kind = str(rng.choice(['dense', 'cyclic', 'ring'])) if n > 1 else 'dense'
    T = gen_T(rng, kind, n)
    p_kind = p_kind or str(rng.choice(P_KINDS))
    T_dtype = 'float32' if rng.random() < 0.2 else 'float64'
    if T_dtype == 'float32':
        T = T.astype(np.float32).astype(np.float64)
    if p_kind in ('int64-onehot', 'int32-onehot'):
        p = np.zeros(n)
        p[int(rng.integers(0, n))] = 1
    elif p_kind == 'int-walkers':
        p = rng.integers(0, 200, size=n).astype(float)
    else:
        p = rng.random(n)
        if rng.random() < 0.3:
            p = np.zeros(n)
            p[int(rng.integers(0, n))] = 1.0
        else:
            p = p / p.sum()
        if p_kind == 'float32':
            p = p.astype(np.float32).astype(np.float64)
    # a Python list start has no .dot: the observable branch is documented for arrays only
    with_obs = p_kind != 'list' and rng.random() < 0.4
    obs_kind = 'int64' if (with_obs and rng.random() < 0.3) else 'float64'
    obs = None
    if with_obs:
        obs = [int(x) for x in rng.integers(-5, 6, size=n)] if obs_kind == 'int64' else rng.normal(size=n).tolist()
    return {'T': T.tolist(), 'T_dtype': T_dtype, 'p': p.tolist(), 'p_kind': p_kind,
            'n_steps': int(rng.choice([0, 1, 2, 2, 3, 3, 4, 6, 9])),
            'form': str(rng.choice(['dense', 'csr', 'coo'])), 'obs': obs, 'obs_kind': obs_kind}


def ensemble_model_cost(case):
    """the model propagates index functions (no memoisation): n^(steps-1) evaluations"""
    return len(case['p']) ** max(case['n_steps'] - 1, 0)


def ensemble_request(case):
    if ensemble_model_cost(case) > 3000:
        return {'op': 'C16.ntimes', 'n_states': 2, 'n_times': None}      # placeholder, answer unused
    return {'op': 'C16.ensemble', 'T': [[frac(x) for x in row] for row in case['T']],
            'p': [frac(x) for x in case['p']], 'n_steps': case['n_steps']}


def section_ensemble(ctx):
    cases = [gen_ensemble(ctx.rng, pk) for pk in sorted(set(P_KINDS)) for _ in range(ctx.n(6, 60))]
    cases += [gen_ensemble(ctx.rng) for _ in range(ctx.n(100, 3000))]
    resp = ctx.driver([ensemble_request(c) for c in cases])
    for c, r in zip(cases, resp):
        check_ensemble(ctx, c, r)


# ----------------------------------------------------------------------------- call history / object reuse

def fit_diff(m, pipe):
    """name of the first fitted attribute of `m` that differs from the hand-composed pipeline result"""
    if mapping_dict(m.mapping_) != pipe['mapping']:
        return 'mapping_'
    tc = dense(m.tcounts_)
    if tc.shape != pipe['tcounts'].shape or not np.array_equal(tc, pipe['tcounts']):
        return 'tcounts_'
    if not close(dense(m.tprobs_), pipe['tprobs']):
        return 'tprobs_'
    if not close(np.asarray(m.eq_probs_, dtype=float), pipe['eq']):
        return 'eq_probs_'
    return None


def assigns_bytes(a):
    return (a._data if hasattr(a, '_data') else a).tobytes()


def check_history(ctx, case):
    """one estimator, two data sets (A then B), B fitted twice; a second estimator; results held by the
    caller; the caller's arrays changed afterwards"""
    from enspara.msm import MSM, builders
    repA = dict(case, kind='history')
    cA = dict(case, rows=case['rows'])
    cB = dict(case, rows=case['rows_b'])
    ctx.case(repA, nontrivial=True, tags=['history', 'history-%s' % case['builder'],
                                          'history-trim' if case['trim'] else 'history-no-trim', 'history-' + case['form']])
    with quiet():
        pA, pB = run_pipeline(cA), run_pipeline(cB)
    if 'error' in pA or 'error' in pB:
        ctx.skip('history: a builder guard raised on one of the two data sets')
        return
    a = make_assigns(cA['rows'], case['form'], case.get('dtype', 'int64'))
    b = make_assigns(cB['rows'], case['form'], case.get('dtype', 'int64'))
    a0, b0 = assigns_bytes(a), assigns_bytes(b)
    method = getattr(builders, case['builder'])
    try:
        with quiet():
            m = MSM(lag_time=case['lag'], method=method, trim=case['trim'], sliding_window=case['sliding'],
                    max_n_states=case['max_n'])
            m.fit(a)
            d = fit_diff(m, pA)
            if d:
                ctx.violation('first fit: %s differs from the pipeline' % d, dict(repA, attribute=d))
                return
            held = {'tcounts_': m.tcounts_, 'tprobs_': m.tprobs_, 'eq_probs_': m.eq_probs_}
            held_map = m.mapping_
            snap = {k: dense(v).copy() if k != 'eq_probs_' else np.array(v, dtype=float) for k, v in held.items()}
            snap_map = mapping_dict(held_map)
            m.fit(b)
            d = fit_diff(m, pB)
            if d:
                ctx.violation('an estimator fitted a second time on other data: %s is not the pipeline result for '
                              'the new data' % d, dict(repA, attribute=d, step='refit'))
                return
            m.fit(b)                                   # the same argument object again
            d = fit_diff(m, pB)
            if d:
                ctx.violation('fitting twice on the same array object changes %s' % d, dict(repA, attribute=d, step='same-object'))
                return
            m1 = MSM(lag_time=case['lag'], method=method, trim=case['trim'], sliding_window=case['sliding'],
                     max_n_states=case['max_n'])
            m1.fit(a)
            m2 = MSM(lag_time=case['lag'], method=method, trim=case['trim'], sliding_window=case['sliding'],
                     max_n_states=case['max_n'])
            m2.fit(b)
            d = fit_diff(m1, pA)
            if d:
                ctx.violation('fitting a second estimator changed %s of the first one' % d, dict(repA, attribute=d, step='two-estimators'))
                return
    except Exception as e:  # noqa
        ctx.violation('refitting raised %s where both pipelines work' % type(e).__name__, repA)
        return
    for k, v in held.items():
        now = dense(v) if k != 'eq_probs_' else np.array(v, dtype=float)
        if now.shape != snap[k].shape or not np.array_equal(now, snap[k], equal_nan=True):
            ctx.violation('the %s object obtained from the first fit was changed by a later fit' % k,
                          dict(repA, attribute=k, step='held-result'))
            return
    if mapping_dict(held_map) != snap_map:
        ctx.violation('the mapping_ object obtained from the first fit was changed by a later fit', dict(repA, step='held-result'))
        return
    if assigns_bytes(a) != a0 or assigns_bytes(b) != b0:
        ctx.violation('MSM.fit changed the caller\'s assignments', dict(repA, step='input-modified'))
        return
    # the fitted arrays must not be views of the caller's assignments
    buf = a._data if hasattr(a, '_data') else a
    buf[...] = np.where(buf == -1, -1, 0)
    d = fit_diff(m1, pA)
    if d:
        ctx.violation('overwriting the caller\'s assignment array after fit changed the estimator\'s %s' % d,
                      dict(repA, attribute=d, step='alias'))


def gen_history(rng):
    c = gen_fit_case(rng, int(rng.integers(1, 4)), str(rng.choice(BUILDERS)), bool(rng.integers(0, 2)),
                     bool(rng.integers(0, 2)), bool(rng.integers(0, 2)))
    dense_counts = c['builder'] == 'mle'
    c['rows'] = gen_rows(rng, dense_counts=dense_counts)
    c['rows_b'] = gen_rows(rng, dense_counts=dense_counts)
    if c['max_n'] is not None:
        c['max_n'] = max(max(max(r) for r in c['rows']), max(max(r) for r in c['rows_b'])) + 1 + int(rng.integers(0, 2))
    c['by_name'] = False
    return c


def check_repeat_calls(ctx, rng):
    """the same argument objects handed to the spectral / propagation functions twice"""
    import scipy.sparse
    from enspara.msm.transition_matrices import eigenspectrum
    from enspara.msm.synthetic_data import synthetic_ensemble
    from enspara.msm import implied_timescales, builders
    n = int(rng.integers(2, 7))
    T = gen_T(rng, str(rng.choice(['dense', 'cyclic', 'reversible'])), n)
    form = str(rng.choice(['dense', 'csr']))
    arg = T.copy() if form == 'dense' else scipy.sparse.csr_matrix(T)
    rep = {'kind': 'repeat', 'T': T.tolist(), 'form': form}
    ctx.case(rep, nontrivial=True, tags=['repeat-calls', 'repeat-' + form])
    with quiet():
        r1 = eigenspectrum(arg)
        r2 = eigenspectrum(arg)
    if not np.array_equal(dense(arg), T):
        ctx.violation('eigenspectrum changed its input matrix', dict(rep, fn='eigenspectrum'))
        return
    if not (np.array_equal(r1[0], r2[0]) and np.array_equal(r1[1], r2[1])):
        ctx.violation('eigenspectrum returns a different spectrum when called again on the same object', dict(rep, fn='eigenspectrum'))
        return
    p0 = np.zeros(n, dtype=int)
    p0[0] = 1
    with quiet():
        e1 = synthetic_ensemble(arg, p0, 4)
        keep = (np.array(e1[0], dtype=float), np.array(e1[1], dtype=float))
        e2 = synthetic_ensemble(arg, p0, 4)
    if not np.array_equal(dense(arg), T) or p0.tolist() != [1] + [0] * (n - 1):
        ctx.violation('synthetic_ensemble changed its arguments', dict(rep, fn='synthetic_ensemble'))
        return
    want = np.array([p0 @ np.linalg.matrix_power(T, k) for k in range(4)])
    for e in (e1, e2):
        if not close(e[1], want) or not close(e[0], want[-1]) or not close(keep[1], want):
            ctx.violation('synthetic_ensemble differs from p0 T^k when called again on the same objects', dict(rep, fn='synthetic_ensemble'))
            return
    rows = gen_rows(rng, dense_counts=True)
    rows[0][:3] = [0, 1, 0]
    a = make_assigns(rows, 'padded')
    a0 = a.tobytes()
    with quiet():
        t1 = implied_timescales(a, [1, 2], builders.transpose, n_times=2)
        t2 = implied_timescales(a, [1, 2], builders.transpose, n_times=2)
    if a.tobytes() != a0 or not np.array_equal(t1, t2, equal_nan=True):
        ctx.violation('implied_timescales changed its assignments or its answer on a second call',
                      dict(rep, fn='implied_timescales', rows=rows))


def section_history(ctx):
    for _ in range(ctx.n(30, 400)):
        check_history(ctx, gen_history(ctx.rng))
    for _ in range(ctx.n(10, 100)):
        check_repeat_calls(ctx, ctx.rng)


# ----------------------------------------------------------------------------- configuration sweeps on one estimator

SWEEP_KEYS = ('lag', 'builder', 'trim', 'sliding', 'max_n')
PARAM_NAME = {'lag': 'lag_time', 'builder': 'method', 'trim': 'trim', 'sliding': 'sliding_window',
              'max_n': 'max_n_states'}


def sweep_rows_trimmed(rng, k):
    """k core states visited over and over (strongly connected at small lags) inside a universe of k+1 or
    k+2 ids; the other ids are one-way states (entered and never left / left and never entered), and at
    least one of them is smaller than a core id, so trimming keeps k states under a non-identity mapping"""
    e = int(rng.integers(1, 3))
    while True:
        ids = [int(x) for x in rng.permutation(k + e)]
        dropped, core = ids[:e], sorted(ids[e:])
        if min(dropped) < max(core):
            break
    main = core + [core[0]] + [int(x) for x in rng.choice(core, size=int(rng.integers(40, 70)))]
    rows = [main + [dropped[0]]]
    for d in dropped[1:]:
        rows.append([d] + [int(x) for x in rng.choice(core, size=12)])
    return rows


def sweep_rows_full(rng, k):
    """exactly the states 0..k-1, all visited"""
    rows = [list(range(k)) + [int(x) for x in rng.integers(0, k, size=int(rng.integers(30, 60)))]]
    if rng.random() < 0.4:
        rows.append([int(x) for x in rng.integers(0, k, size=int(rng.integers(5, 20)))])
    return rows


def gen_sweep(rng):
    k = int(rng.integers(2, 5))
    builders_ = ('normalize', 'transpose', 'transpose', 'normalize', 'mle')
    cfg = {'lag': int(rng.integers(1, 3)), 'builder': str(rng.choice(builders_)), 'trim': True,
           'sliding': bool(rng.random() < 0.7), 'max_n': None}
    steps = [dict(cfg, rows=sweep_rows_trimmed(rng, k), how='init', reload=False)]
    plan = ['off', 'on', 'off-reloaded', 'other', 'on', 'off'][:int(rng.integers(3, 7))]
    if rng.random() < 0.3:
        plan = ['on'] + plan                       # refit with trimming before it is switched off
    for what in plan:
        cfg = dict(cfg)
        if what in ('off', 'off-reloaded'):
            cfg['trim'], cfg['max_n'] = False, (None if rng.random() < 0.6 else k)
            rows = sweep_rows_full(rng, k)
        elif what == 'on':
            cfg['trim'], cfg['max_n'] = True, (None if rng.random() < 0.7 else k + 3)
            rows = sweep_rows_trimmed(rng, k)
        else:
            key = str(rng.choice(['lag', 'sliding', 'builder', 'max_n']))
            if key == 'lag':
                cfg['lag'] = 3 - cfg['lag'] if cfg['lag'] in (1, 2) else 1
            elif key == 'sliding':
                cfg['sliding'] = not cfg['sliding']
            elif key == 'builder':
                cfg['builder'] = str(rng.choice([b for b in ('normalize', 'transpose') if b != cfg['builder']] or ['normalize']))
            else:
                cfg['max_n'] = k + int(rng.integers(1, 4))
            rows = sweep_rows_full(rng, k) if not cfg['trim'] else sweep_rows_trimmed(rng, k)
        if rng.random() < 0.25:                    # one more parameter moves in the same step
            cfg['sliding'] = not cfg['sliding']
        steps.append(dict(cfg, rows=rows, how=str(rng.choice(['set_params', 'attr'])),
                          reload=(what == 'off-reloaded' or rng.random() < 0.1)))
    form = 'ragged' if rng.random() < 0.5 else 'padded'
    return {'steps': steps, 'form': form, 'dtype': pick_dtype(rng, form)}


def check_sweep(ctx, case):
    """ONE estimator object taken through a sequence of configurations (set_params or attribute
    assignment, optionally replaced by MSM.load(MSM.save()) of itself) and data sets; after every fit all
    four results and the mapping must be what the function pipeline gives for the configuration in force"""
    from enspara.msm import MSM, builders
    rep = dict(case, kind='sweep')
    ctx.case(rep, nontrivial=True, tags=['sweep', 'sweep-steps=%d' % len(case['steps']), 'sweep-' + case['form']])
    m, cur = None, None
    base = tempfile.mkdtemp(prefix='c16_msm_')
    try:
        for i, st in enumerate(case['steps']):
            pc = dict(st, form=case['form'], dtype=case['dtype'], by_name=False)
            a = make_assigns(st['rows'], case['form'], case['dtype'])
            with quiet():
                pipe = run_pipeline(pc)
            err = None
            try:
                with quiet():
                    if m is None:
                        m = MSM(lag_time=st['lag'], method=getattr(builders, st['builder']), trim=st['trim'],
                                sliding_window=st['sliding'], max_n_states=st['max_n'])
                    else:
                        if st.get('reload') and hasattr(m, 'tprobs_'):
                            path = os.path.join(base, 'gen%d' % i)
                            m.save(path)
                            keep_max_n = m.max_n_states
                            m = MSM.load(path)
                            m.max_n_states = keep_max_n          # not part of the saved config
                            ctx.tag('sweep-refit-of-loaded-model')
                        changed = {k: st[k] for k in SWEEP_KEYS if st[k] != cur[k] or k == 'max_n'}
                        for k, v in changed.items():
                            v = getattr(builders, v) if k == 'builder' else v
                            if st['how'] == 'set_params':
                                m.set_params(**{PARAM_NAME[k]: v})
                            else:
                                setattr(m, PARAM_NAME[k], v)
                        for k in changed:
                            if st[k] != cur[k]:
                                ctx.tag('sweep-change-%s-by-%s' % (k, st['how']))
                    prev_map = mapping_dict(m.mapping_) if hasattr(m, 'mapping_') else None
                    cur = {k: st[k] for k in SWEEP_KEYS}
                    m.fit(a)
            except Exception as e:  # noqa
                err = type(e).__name__
            where = 'step %d (%s%s: %s)' % (i, st['how'], ', reloaded' if st.get('reload') else '',
                                             ', '.join('%s=%s' % (PARAM_NAME[k], st[k]) for k in SWEEP_KEYS))
            if 'error' in pipe or err:
                if pipe.get('error') != err:
                    ctx.violation('configuration sweep, %s: estimator %s, pipeline %s' % (
                        where, 'raised ' + err if err else 'returned',
                        'raised ' + pipe['error'] if 'error' in pipe else 'returned'), dict(rep, step=i))
                    return
                ctx.skip('sweep: a builder guard raised in both estimator and pipeline')
                if err and not hasattr(m, 'tprobs_'):
                    return
                continue
            if (not st['trim'] and prev_map is not None and len(prev_map) == len(pipe['mapping'])
                    and prev_map != pipe['mapping']):
                ctx.tag('sweep-size-coincidence (old non-identity mapping has the new state count)')
            if st['trim'] and any(k != v for k, v in pipe['mapping'].items()):
                ctx.tag('sweep-trimming-renumbers')
            d = fit_diff(m, pipe)
            if d:
                ctx.violation('configuration sweep, %s: %s is not what the function pipeline gives for the '
                              'configuration in force' % (where, d), dict(rep, step=i, attribute=d,
                                                                          got=(mapping_dict(m.mapping_) if d == 'mapping_' else None)))
                return
    finally:
        shutil.rmtree(base, ignore_errors=True)


def section_sweep(ctx):
    for _ in range(ctx.n(40, 600)):
        check_sweep(ctx, gen_sweep(ctx.rng))


# ----------------------------------------------------------------------------- entry points

def run(ctx):
    import time
    wall = {}
    t = time.time()
    fitted = section_fit(ctx)
    wall['fit'] = round(time.time() - t, 1)
    for name, fn in (('saveload', lambda: section_saveload(ctx, fitted)), ('mapping', lambda: section_mapping(ctx)),
                     ('eig', lambda: section_eig(ctx)), ('timescales', lambda: section_timescales(ctx)),
                     ('ensemble', lambda: section_ensemble(ctx)), ('history', lambda: section_history(ctx)), ('sweep', lambda: section_sweep(ctx))):
        t = time.time()
        fn()
        wall[name] = round(time.time() - t, 1)
    ctx.note('section_wall_s', wall)


def replay(ctx, data):
    kind = data.get('kind', 'fit')
    if kind == 'saveforce':
        c = {k: data[k] for k in ('rows', 'lag', 'builder', 'trim', 'sliding', 'max_n', 'form', 'by_name')}
        c['dtype'] = data.get('dtype', 'int64')
        m, err, pipe = fit_real(c)
        if m is not None:
            check_save_force(ctx, c, m)
    elif kind in ('fit', 'saveload'):
        c = {k: data[k] for k in ('rows', 'lag', 'builder', 'trim', 'sliding', 'max_n', 'form', 'by_name')}
        c['positional'] = bool(data.get('positional'))
        c['dtype'] = data.get('dtype', 'int64')
        c['np_lag'] = data.get('np_lag', False)
        c['via'] = data.get('via')
        c['family'] = data.get('family')
        r = ctx.driver([fit_request(c, keep_states(c))])[0] if model_affordable(c) else None
        m, err, pipe = fit_real(c)
        m = check_fit(ctx, c, m, err, pipe, r)
        if kind == 'saveload' and m is not None and err is None:
            c2 = dict(c, filenames=bool(data.get('filenames')), resave=bool(data.get('resave')))
            check_saveload(ctx, c2, m, ctx.driver([saveload_request(c, m)])[0])
    elif kind == 'mapping':
        c = {'pairs': data['pairs']}
        check_mapping(ctx, c, ctx.driver([{'op': 'C16.mapping', 'pairs': c['pairs']}])[0])
    elif kind == 'eig':
        c = {k: data[k] for k in ('T', 'kind_T', 'n_eigs', 'left', 'form')}
        c['dtype'] = data.get('dtype', 'float64')
        c['n_eigs_np'] = bool(data.get('n_eigs_np'))
        if 'pi' in data:
            c['pi'] = data['pi']
        r, raw = eig_request(c)
        check_eig(ctx, c, ctx.driver([r])[0], raw)
    elif kind == 'timescales':
        c = {k: data[k] for k in ('rows', 'lags', 'builder', 'n_times', 'sliding', 'trim', 'form')}
        c['dtype'] = data.get('dtype', 'int64')
        c['lags_kind'] = data.get('lags_kind', 'list')
        c['metastable'] = data.get('metastable', 0)
        check_timescales(ctx, c, int(ctx.driver([timescales_request(c)])[0]['ok']))
    elif kind == 'ensemble':
        c = {k: data[k] for k in ('T', 'p', 'n_steps', 'form', 'obs')}
        for k in ('T_dtype', 'p_kind', 'obs_kind'):
            if k in data:
                c[k] = data[k]
        check_ensemble(ctx, c, ctx.driver([ensemble_request(c)])[0])
    elif kind == 'sweep':
        check_sweep(ctx, {'steps': data['steps'], 'form': data['form'], 'dtype': data['dtype']})
    elif kind == 'history':
        c = {k: v for k, v in data.items() if k not in ('kind', 'attribute', 'step')}
        check_history(ctx, c)
    elif kind in ('eig-guard', 'repeat'):
        pass
    else:
        raise ValueError('unknown replay kind %r' % kind)
