"""C09 - k-medoids refinement never worsens the cost and keeps centers in the data.

Uses the machinery of props/c01.py (same entry points, same Lean model `Model.Cluster`); adds the
C09 predicates: cost along the sweep history, k kept, centers are frames, hybrid <= its k-centers start,
reproducibility, warm starts, "rejected => nothing of the candidate is kept".
"""
import numpy as np

from props import c01 as base

RULE = ('(+ k-hybrid in MPI mode on 2-3 thread-simulated ranks owning unequal numbers of frames: global cost '
        'recomputed from all frames, oracle only) k-medoids / k-hybrid runs (function and estimator forms, _kmedoids_pam_update chains) on the C01 '
        'generators incl. the large-n family (n 257..600 and >65536, centers at indices >= 256/65536, k>255; oracle only) (table metric incl. asymmetric / tie-heavy tables, euclidean/manhattan on small-integer '
        'grids, n 2..40, k 1..n, 1..6 sweeps, explicit proposals incl. foreign clusters / current centers / '
        'other centers, recorded random proposals, int seeds, cold and warm starts from independently built '
        'Consistent states with non-first tie-breaks); each run is repeated with 0..T sweeps to obtain the '
        'cost history; non-trivial when some proposal differs from the current center; distinct by canonical input')
ASSUMPTIONS = list(base.ASSUMPTIONS) + [
    'a run with t sweeps is a prefix of the run with t+1 sweeps when seeds / recorded RandomState / proposals '
    'are the same (checked: the states after t sweeps are compared with the model sweep by sweep)',
]
TRUSTED_EXTRA = list(base.TRUSTED_EXTRA)
MIRRORS = [('enspara/cluster/kmedoids.py', ['kmedoids', '_kmedoids_inputs_tree', '_kmedoids_iterations',
                                             '_kmedoids_pam_update', '_propose_new_center_amongst', '_msq']),
           ('enspara/cluster/hybrid.py', ['hybrid']),
           ('enspara/cluster/util.py', ['assign_to_nearest_center', 'find_cluster_centers'])]

GEN_KINDS = ('kmedoids', 'KMedoids.fit', 'pam_update', 'hybrid', 'KHybrid.fit')
KINDS = GEN_KINDS + ('kmedoids_feedback',)


def msq(d):
    d = np.asarray(d, dtype=float)
    return float(np.sum(np.square(d)) / len(d))


def same_state(a, b):
    return (a['inds'] == b['inds'] and np.array_equal(a['assign'], b['assign'])
            and np.array_equal(a['dist'], b['dist']) and len(a['centers']) == len(b['centers'])
            and all(np.array_equal(x, y) for x, y in zip(a['centers'], b['centers'])))


def start_state(P, case):
    """the state the sweeps start from, obtained from the real code / the case (None if not observable)"""
    kind = case['kind']
    if kind in ('hybrid', 'KHybrid.fit'):
        o = base.run_real(P, dict(case, kind='kcenters' if kind == 'hybrid' else 'KCenters.fit'))
        return o.get('ok')
    if case.get('state') is not None and (kind == 'pam_update' or case.get('warm', 'all' if kind == 'kmedoids_feedback' else None) == 'all'):
        st = case['state']
        return {'inds': [int(i) for i in st['inds']], 'assign': np.array(st['assign']),
                'dist': np.array(st['dist'], dtype=float), 'centers': [P.X[i] for i in st['inds']]}
    return None


def history(ctx, P, case, final, rec_rounds=()):
    """results after 1..T sweeps from the real code (prefix runs)"""
    kind = case['kind']
    T = case.get('n_iters', 1) or 0
    hist = []
    if kind == 'kmedoids_feedback':
        return list(rec_rounds), None
    if kind == 'pam_update':
        # chain of single sweeps, feeding the output back in
        cur = final
        hist.append(final)
        for t in range(1, case.get('chain', 1)):
            c2 = dict(case, state={'inds': cur['inds'], 'assign': [int(x) for x in cur['assign']],
                                   'dist': [float(x) for x in cur['dist']]}, seed=case.get('seed', 0) + t)
            o = base.run_real(P, c2)
            if 'ok' not in o:
                return None, '%s raised %s in sweep %d of a chain' % (kind, o.get('error'), t + 1)
            hist.append(o['ok'])
            cur = o['ok']
        return hist, None
    for t in range(1, T):
        o = base.run_real(P, case, n_iters=t)
        if 'ok' not in o:
            return None, '%s raised %s with %d sweeps' % (kind, o.get('error'), t)
        hist.append(o['ok'])
    hist.append(final)
    return hist, None


def extra(ctx, rec, model):
    case, P, out = rec['case'], rec['P'], rec['out']
    kind = case['kind']
    if 'ok' not in out or case.get('outside'):
        return
    T = case.get('n_iters', 1) or 0
    if kind != 'pam_update' and T == 0:
        return
    final = out['ok']
    fail = lambda what: ctx.violation('%s: %s' % (kind, what), dict(case))  # noqa: E731
    # reproducible: the same call again gives the same result
    again = base.run_real(P, case)
    if 'ok' not in again or not same_state(final, again['ok']):
        return fail('same seed / proposals, different result')
    ctx.tag('reproducible')
    s0 = start_state(P, case)
    hist, err = history(ctx, P, case, final, out.get('rounds', ()))
    if err:
        return fail(err)
    seq = ([s0] if s0 is not None else []) + hist
    k0 = len(seq[0]['inds'])
    prev = None
    for t, st in enumerate(seq):
        if len(st['inds']) != k0:
            return fail('number of centers changed from %d to %d' % (k0, len(st['inds'])))
        for j, c in enumerate(st['inds']):
            if not (0 <= c < P.n) or not np.array_equal(np.asarray(st['centers'][j]), P.X[c]):
                return fail('center %d is not the input frame at its index' % j)
        if len(set(st['inds'])) != k0:
            return fail('two centers are the same frame')
        c = msq(st['dist'])
        if prev is not None:
            pc, pst = prev
            if c > pc * (1 + 1e-12) + 1e-300:
                return fail('cost rose from %r to %r in sweep %d' % (pc, c, t))
            if c == pc and not same_state(pst, st):
                return fail('cost unchanged in sweep %d but the state changed (a rejected candidate was partly kept)' % t)
            if c < pc:
                ctx.tag('cost-decreased')
            else:
                ctx.tag('cost-unchanged')
        prev = (c, st)
    ctx.tag('history-len=%d' % min(len(seq), 7))
    if kind in ('hybrid', 'KHybrid.fit') and s0 is not None:
        if msq(final['dist']) > msq(s0['dist']) * (1 + 1e-12):
            return fail('k-hybrid cost %r above its k-centers start %r' % (msq(final['dist']), msq(s0['dist'])))
        ctx.tag('hybrid<=kcenters')
    if case.get('state') is not None and kind not in ('pam_update', 'kmedoids_feedback') and case.get('warm') != 'all':
        # warm start from part of a Consistent state: guarantees relative to that state's cost
        # (the arrays are recomputed / centers inferred; both describe the same clustering cost)
        c0 = msq(case['state']['dist'])
        if msq(final['dist']) > c0 * (1 + 1e-12):
            return fail('warm start (%s): cost %r above the supplied state\'s %r' % (case['warm'], msq(final['dist']), c0))
        ctx.tag('warm-start-cost<=')
    # the model's exact cost history (Rat) must be non-increasing too, and agree on the accepted count
    if model and 'ok' in model:
        tr = model['ok'].get('trace', [])
        for stp in tr:
            o, nw = base._unrat(stp['old']), base._unrat(stp['new'])
            if stp['acc'] != (nw < o):
                ctx.disagreement('model trace: accept flag differs from new<old', dict(case))
                return


# --------------------------------------------------------------------------- k-hybrid on MPI-striped data

def _run_ranks(w, fn, timeout=20.0):
    """fn(rank) on w thread-simulated ranks of the mpi4py stand-in; returns (results, errors, hung)"""
    import threading
    import time
    from mpi4py import MPI
    W = MPI.WORLD
    W.size, W.slots, W.jitter, W.aborted = w, {}, None, False
    results, errors = [None] * w, [None] * w

    def worker(r):
        MPI._tls.rank = r
        try:
            results[r] = fn(r)
        except BaseException as e:  # noqa
            errors[r] = e
            with W.cv:
                W.aborted = True
                W.cv.notify_all()
    threads = [threading.Thread(target=worker, args=(r,), daemon=True) for r in range(w)]
    for t in threads:
        t.start()
    deadline = time.time() + timeout
    for t in threads:
        t.join(max(0.0, deadline - time.time()))
    hung = any(t.is_alive() for t in threads)
    if hung:
        with W.cv:
            W.aborted = True
            W.cv.notify_all()
        for t in threads:
            t.join(5.0)
    W.size, W.jitter, W.slots, W.aborted = 1, None, {}, False
    MPI._tls.rank = 0
    return results, errors, hung


def gen_mpi_case(rng):
    """few frames striped unevenly over 2-3 ranks (rank r owns X[r::W]): the refinement stage of k-hybrid in
    MPI mode decides on the mean over ALL frames; small pieces make any mis-weighting of the ranks visible"""
    W = int(rng.integers(2, 4))
    n = int(rng.integers(W + 1, 7))
    while n % W == 0:
        n += 1
    dim = int(rng.integers(1, 3))
    pts = base.gen_points(rng, n) if dim > 1 else [[int(x)] for x in rng.choice(np.arange(0, 9), size=n, replace=False)]
    return {'kind': 'mpi_hybrid', 'X': pts, 'W': W, 'n_clusters': 2 if n < 5 else int(rng.integers(2, 4)),
            'n_iters': 3, 'seed': int(rng.integers(0, 2 ** 31 - 8)), 'metric': 'manhattan',
            # the library's contract: rank 0 draws, the others receive - so ranks may hold DIFFERENT generators
            'rs_per_rank': bool(rng.random() < 0.5),
            'dtype': str(rng.choice(['int64', 'int32', 'float64']))}


def check_mpi_case(ctx, case):
    from enspara.cluster import hybrid
    X = np.array(case['X']).astype(case['dtype'])
    Xf = np.array(case['X'], dtype=float)
    W, k, seed = case['W'], case['n_clusters'], case['seed']
    n = len(X)
    per_rank = bool(case.get('rs_per_rank'))
    ctx.case(case, nontrivial=True, tags=['mpi_hybrid', 'mpi-uneven-striping', 'ranks=%d' % W,
                                          'mpi-rng-per-rank-different' if per_rank else 'mpi-rng-same-int-seed'])

    def rs_of(r):
        return np.random.RandomState(seed + r) if per_rank else seed
    fail = lambda what: ctx.violation('hybrid(mpi_mode=True) on %d ranks: %s' % (W, what), dict(case))  # noqa: E731
    prev = None
    for T in range(0, case['n_iters'] + 1):
        with base.quiet_logs():
            res, errs, hung = _run_ranks(W, lambda r: hybrid.hybrid(
                X[r::W], case['metric'], n_clusters=k, n_iters=T, random_state=rs_of(r), mpi_mode=True))
        if hung:
            return fail('ranks deadlocked with %d sweeps' % T)
        e = next((e for e in errs if e is not None), None)
        if e is not None:
            return fail('raised %s (%s) with %d sweeps' % (type(e).__name__, str(e)[:120], T))
        inds = [tuple(int(x) for x in np.atleast_1d(i)) for i in res[0].center_indices]
        for o in res[1:]:
            if [tuple(int(x) for x in np.atleast_1d(i)) for i in o.center_indices] != inds:
                return fail('ranks report different centers')
        if len(inds) != k or len(set(inds)) != k:
            return fail('%d distinct centers instead of %d' % (len(set(inds)), k))
        coords = []
        for (r, i), c in zip(inds, res[0].centers):
            if not (0 <= r < W and 0 <= i < len(X[r::W])) or not np.array_equal(np.asarray(c), X[r::W][i]):
                return fail('a center is not the input frame at its (rank, index)')
            coords.append(Xf[r::W][i])
        d = np.min(np.stack([np.abs(Xf - c).sum(1) for c in coords]), 0)
        for r in range(W):       # each rank's distances are the distances of its frames to the nearest center
            if not np.array_equal(np.asarray(res[r].distances, dtype=float), d[r::W]):
                return fail('rank %d: distances are not the distances to the nearest reported center' % r)
        c = float(np.sum(d * d) / n)
        if prev is not None and c > prev * (1 + 1e-12):
            return fail('the mean squared distance over all frames rose from %r to %r in sweep %d' % (prev, c, T))
        if prev is not None:
            ctx.tag('mpi-cost-decreased' if c < prev else 'mpi-cost-unchanged')
        prev = c


def gen_case(rng, kind=None, nmax=14):
    kind = kind or str(rng.choice(GEN_KINDS, p=[.3, .1, .25, .25, .1]))
    c = base.gen_case(rng, kind=kind, nmax=nmax)
    if kind == 'pam_update':
        c['chain'] = int(rng.integers(1, 5))
    elif (c.get('n_iters') or 0) > 0 or kind in ('hybrid', 'KHybrid.fit'):
        c['n_iters'] = int(rng.integers(1, 7))
    return c


def run(ctx):
    with base.one_thread():
        rng = ctx.rng
        cases = []
        for kind in GEN_KINDS:
            for _ in range(ctx.n(8, 60)):
                cases.append(gen_case(rng, kind=kind))
        for _ in range(ctx.n(700, 9000)):
            cases.append(gen_case(rng))
        for _ in range(ctx.n(20, 400)):
            cases.append(gen_case(rng, nmax=40))
        # families of the generator blind-spot audit (containers/dtypes/layouts, scaled tables, exact cost ties,
        # degenerate structure, reused / fed-back state objects, sweep-count corners)
        cases += base.audit_families(ctx, kinds=KINDS)
        # large-n family (frame indices / labels beyond the narrow integer types; oracle only)
        cases += [c for c in base.large_family(ctx) if c['kind'] in KINDS]
        for c in base.tiny_tables(ctx, 3):
            cases.append(c)
        for c in base.tiny_tables(ctx, 4, limit=ctx.n(40, 100000)):
            cases.append(c)
        base.check_cases(ctx, cases, area='C09', extra=extra)
        # the refinement stage of k-hybrid on MPI-striped data (thread-simulated ranks), uneven pieces
        for _ in range(ctx.n(200, 2500)):
            c = gen_mpi_case(rng)
            base._safely(ctx, 'running mpi_hybrid', c, lambda c=c: check_mpi_case(ctx, c))
        need = ['pam-branch-dn', 'pam-branch-other', 'pam-branch-this', 'pam-accept', 'pam-reject',
                'cost-decreased', 'cost-unchanged', 'hybrid<=kcenters', 'warm-start-cost<=', 'model-agrees', 'large-n', 'center-index>=256', 'k>255', 'n>65536', 'family=containers', 'family=scaled', 'family=exact-ties',
                'family=degenerate', 'family=reuse', 'family=config', 'pam-exact-tie-other-candidate', 'pam-exact-tie-with-label-swap',
                'pam-accept-after-exact-tie', 'same-objects-reused', 'fed-back-rounds-agree', 'proposals=current-medoids',
                'sweep-by-sweep-agrees', 'reproducible', 'mpi-uneven-striping', 'mpi-cost-decreased',
                'mpi-rng-per-rank-different', 'mpi-rng-same-int-seed']
        ctx.note('under_covered', [t for t in need if not ctx.tags.get(t)])


def replay(ctx, data):
    if data.get('case', data).get('kind') == 'mpi_hybrid':
        with base.one_thread():
            check_mpi_case(ctx, dict(data.get('case', data)))
        return
    with base.one_thread():
        base.check_cases(ctx, [dict(data.get('case', data))], area='C09', extra=extra)
