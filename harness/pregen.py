"""Run the translators (source -> lean/Model/Generated/*.lean) of the given properties."""
import importlib
import os
import sys

HERE = os.path.dirname(os.path.abspath(__file__))
sys.path.insert(0, HERE)
import stage  # noqa: E402

gen = os.path.join(os.path.dirname(HERE), 'lean', 'Model', 'Generated')
os.makedirs(gen, exist_ok=True)
rc = 0
for pid in sys.argv[1:]:
    try:
        mod = importlib.import_module('props.' + pid.lower())
    except Exception as e:  # noqa
        print('pregen: cannot import props.%s: %s' % (pid.lower(), e))
        rc = 1
        continue
    if hasattr(mod, 'translate'):
        info = mod.translate(stage.REPO, gen)
        print('pregen %s: %s' % (pid, info.get('summary', 'ok')))
sys.exit(rc)
