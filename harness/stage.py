"""Stage /repo's current working tree outside /repo and /verif and build its extensions.

Usage (from checks):  stage_dir = stage.stage()   -> path; sys.path gets [mpi_stub, stage_dir]
The compiled .so files are cached under /verif/.cache/ext/<sha256 of pyx + flags>/ ; a
changed .pyx misses the cache and is rebuilt from the working tree.
"""
import fcntl
import hashlib
import os
import shutil
import subprocess
import sys
import sysconfig
import tempfile

VERIF = os.path.dirname(os.path.dirname(os.path.abspath(__file__)))
REPO = os.environ.get('VERIF_REPO', '/repo')
CACHE = os.path.join(VERIF, '.cache')
PYX = ['geometry/libdist.pyx', 'info_theory/libinfo.pyx', 'msm/libmsm.pyx']
CFLAGS = ['-O2', '-fopenmp', '-fPIC', '-shared', '-Wno-unreachable-code', '-w']
PY = '/venv/bin/python'


def _lock():
    os.makedirs(CACHE, exist_ok=True)
    f = open(os.path.join(CACHE, 'lock'), 'w')
    fcntl.flock(f, fcntl.LOCK_EX)
    return f


def _build_ext(stage_dir, rel):
    src = os.path.join(stage_dir, 'enspara', rel)
    with open(src, 'rb') as f:
        content = f.read()
    import numpy
    key = hashlib.sha256(content + repr(CFLAGS).encode() + sys.version.encode()
                         + numpy.__version__.encode()).hexdigest()
    suffix = sysconfig.get_config_var('EXT_SUFFIX')
    modname = os.path.basename(rel)[:-4]
    target = os.path.join(os.path.dirname(src), modname + suffix)
    cdir = os.path.join(CACHE, 'ext', key)
    cached = os.path.join(cdir, modname + suffix)
    if os.path.exists(cached):
        shutil.copy(cached, target)
        return 'hit'
    # cythonize in the stage dir
    from Cython.Build import cythonize  # noqa
    from Cython.Compiler import Options  # noqa
    r = subprocess.run([PY, '-m', 'cython', '-3', src, '-o', src[:-4] + '.c'],
                       cwd=stage_dir, capture_output=True, text=True)
    if r.returncode != 0:
        raise RuntimeError('cython failed for %s:\n%s' % (rel, r.stderr[-3000:]))
    inc = [sysconfig.get_paths()['include'], numpy.get_include()]
    cmd = ['gcc'] + CFLAGS + ['-I' + i for i in inc] + [src[:-4] + '.c', '-o', target]
    r = subprocess.run(cmd, capture_output=True, text=True)
    if r.returncode != 0:
        raise RuntimeError('gcc failed for %s:\n%s' % (rel, r.stderr[-3000:]))
    os.makedirs(cdir, exist_ok=True)
    tmp = cached + '.tmp%d' % os.getpid()
    shutil.copy(target, tmp)
    os.replace(tmp, cached)
    return 'miss'


LIVE = []   # staging directories of this process (removed by unstage / the runner's timeout handler)


def _sweep_stale(max_age_s=3 * 3600):
    """Remove staging directories left behind by runs that were killed (older than any run can be)."""
    import glob
    import time
    now = time.time()
    for old in glob.glob(os.path.join(tempfile.gettempdir(), 'enspara_stage_*')):
        try:
            if now - os.path.getmtime(old) > max_age_s:
                shutil.rmtree(old, ignore_errors=True)
        except OSError:
            pass


def stage():
    """Copy /repo/enspara into a fresh temp dir and build; returns (dir, info)."""
    _sweep_stale()
    d = tempfile.mkdtemp(prefix='enspara_stage_')
    LIVE.append(d)
    info = {}
    lock = _lock()
    try:
        subprocess.run(['rsync', '-a', '--exclude', '*.so', '--exclude', '__pycache__',
                        '--exclude', '*.c', os.path.join(REPO, 'enspara'), d], check=True)
        for rel in PYX:
            info[rel] = _build_ext(d, rel)
    except BaseException:
        shutil.rmtree(d, ignore_errors=True)
        raise
    finally:
        lock.close()
    return d, info


def activate(d):
    stub = os.path.join(VERIF, 'harness', 'mpi_stub')
    sys.path[:0] = [stub, d]
    os.environ['PYTHONPATH'] = os.pathsep.join([stub, d, os.environ.get('PYTHONPATH', '')])
    os.environ['ENSPARA_VERIF'] = '1'


def unstage(d):
    shutil.rmtree(d, ignore_errors=True)
    if d in LIVE:
        LIVE.remove(d)


if __name__ == '__main__':
    d, info = stage()
    print(d, info)
    activate(d)
    import enspara
    print(enspara.__file__)
    from enspara.geometry import libdist  # noqa
    from enspara.msm import libmsm  # noqa
    from enspara.info_theory import libinfo  # noqa
    import enspara.cluster, enspara.msm, enspara.info_theory, enspara.tpt  # noqa
    print('ok')
    unstage(d)
