"""Fingerprints of the source functions a hand-written model mirrors.

A changed fingerprint is NOT a violation: it only tells the runner that the model may be
stale, so the correspondence/predicate search runs with the thorough budget.
Baselines live in /verif/fingerprints/Cxx.json (committed; refreshed with
tools/update_fingerprints.py after a deliberate change to /repo, never at check time).
"""
import ast
import hashlib
import json
import os
import re

VERIF = os.path.dirname(os.path.dirname(os.path.abspath(__file__)))


def _py_funcs(path):
    with open(path) as f:
        tree = ast.parse(f.read())
    out = {}

    def visit(node, prefix):
        for ch in ast.iter_child_nodes(node):
            if isinstance(ch, (ast.FunctionDef, ast.AsyncFunctionDef, ast.ClassDef)):
                name = prefix + ch.name
                if not isinstance(ch, ast.ClassDef):
                    body = ch.body
                    if body and isinstance(body[0], ast.Expr) and isinstance(getattr(body[0], 'value', None), ast.Constant) \
                            and isinstance(body[0].value.value, str):
                        body = body[1:]
                    dump = ast.dump(ast.Module(body=body, type_ignores=[])) + ast.dump(ch.args)
                    out[name] = hashlib.sha256(dump.encode()).hexdigest()[:16]
                visit(ch, name + '.')
    visit(tree, '')
    # module-level statements (constants etc.)
    top = [n for n in tree.body if not isinstance(n, (ast.FunctionDef, ast.ClassDef, ast.Import, ast.ImportFrom))]
    out['<module>'] = hashlib.sha256(ast.dump(ast.Module(body=top, type_ignores=[])).encode()).hexdigest()[:16]
    return out


def _pyx_funcs(path):
    with open(path) as f:
        lines = f.read().split('\n')
    out, cur, buf = {}, '<module>', []
    for ln in lines:
        code = re.sub(r'#.*$', '', ln).rstrip()
        if not code.strip():
            continue
        m = re.match(r'^(?:cp?def|def)\s+(?:[\w\[\], .]*?\s+)?(\w+)\s*\(', code)
        if m and not code.startswith(' '):
            out[cur] = hashlib.sha256('\n'.join(buf).encode()).hexdigest()[:16]
            cur, buf = m.group(1), []
        buf.append(re.sub(r'\s+', ' ', code.strip()))
    out[cur] = hashlib.sha256('\n'.join(buf).encode()).hexdigest()[:16]
    return out


def compute(repo_dir, mirrors):
    """mirrors: list of (relative path under repo, [function names] or None for whole file)."""
    res = {}
    for rel, names in mirrors:
        path = os.path.join(repo_dir, rel)
        if not os.path.exists(path):
            res[rel] = 'missing'
            continue
        try:
            funcs = _pyx_funcs(path) if path.endswith('.pyx') else _py_funcs(path)
        except SyntaxError:
            res[rel] = 'syntax-error'
            continue
        if names is None:
            for k, v in sorted(funcs.items()):
                res['%s::%s' % (rel, k)] = v
        else:
            for nme in names:
                res['%s::%s' % (rel, nme)] = funcs.get(nme, 'missing')
    return res


def baseline_path(prop_id):
    return os.path.join(VERIF, 'fingerprints', prop_id + '.json')


def stale(prop_id, repo_dir, mirrors):
    """Returns (list of changed keys, current fingerprints). No baseline -> not stale."""
    cur = compute(repo_dir, mirrors)
    p = baseline_path(prop_id)
    if not os.path.exists(p):
        return [], cur
    with open(p) as f:
        base = json.load(f)
    changed = sorted(k for k in set(cur) | set(base) if cur.get(k) != base.get(k))
    return changed, cur


def mirrors_of(mod, prop_id):
    """MIRRORS of the property module, else every function of the property's anchor files."""
    m = getattr(mod, 'MIRRORS', None)
    if m:
        return m
    with open(os.path.join(VERIF, 'properties.jsonl')) as f:
        for line in f:
            p = json.loads(line)
            if p['id'] == prop_id:
                return [(rel, None) for rel in p['anchors']['files']]
    return []
