"""Single-process stand-in for mpi4py.MPI: N ranks simulated by N threads.

Each simulated rank is a thread that sets `_tls.rank = r`; `WORLD.size = w` is set
before the threads start.  Collectives are implemented with one condition variable and
return a function of all ranks' contributions (the MPI contract).  An optional
`WORLD.jitter` callable is invoked before every collective so that arrival orders vary.
"""
import threading

_tls = threading.local()


class _World:
    def __init__(self):
        self.size = 1
        self.cv = threading.Condition()
        self.slots = {}
        self.gen = 0
        self.result = None
        self.jitter = None
        self.aborted = False


WORLD = _World()


def _rank():
    return getattr(_tls, 'rank', 0)


SUM = 'SUM'
MAX = 'MAX'
MIN = 'MIN'


class Comm:
    def Get_rank(self):
        return _rank()

    def Get_size(self):
        return WORLD.size

    def _exchange(self, v):
        w = WORLD
        if w.size == 1:
            return [v]
        if w.jitter is not None:
            w.jitter(_rank())
        with w.cv:
            gen = w.gen
            w.slots[_rank()] = v
            if len(w.slots) == w.size:
                w.result = [w.slots[r] for r in range(w.size)]
                w.slots = {}
                w.gen += 1
                w.cv.notify_all()
            else:
                while w.gen == gen:
                    if w.aborted:
                        raise RuntimeError('mpi stub aborted')
                    w.cv.wait(timeout=0.5)
            return w.result

    def barrier(self):
        self._exchange(None)

    Barrier = barrier

    def allgather(self, v):
        return list(self._exchange(v))

    def gather(self, v, root=0):
        r = list(self._exchange(v))
        return r if _rank() == root else None

    def bcast(self, v, root=0):
        return self._exchange(v)[root]

    def Bcast(self, buf, root=0):
        import numpy as np
        src = self._exchange(
            np.array(buf, copy=True) if _rank() == root else None)[root]
        if _rank() != root:
            buf[...] = src

    def allreduce(self, v, op=SUM):
        vals = self._exchange(v)
        if op == SUM:
            out = vals[0]
            for x in vals[1:]:
                out = out + x
            return out
        if op == MAX:
            return max(vals)
        if op == MIN:
            return min(vals)
        raise NotImplementedError(op)

    def Abort(self, code=0):
        WORLD.aborted = True
        raise SystemExit(code)


COMM_WORLD = Comm()


def run_ranks(world_size, fn, jitter=None):
    """Run fn(rank) on `world_size` simulated ranks; returns list of results.

    Exceptions in any rank are re-raised in the caller (first by rank)."""
    WORLD.size = world_size
    WORLD.slots = {}
    WORLD.jitter = jitter
    WORLD.aborted = False
    results = [None] * world_size
    errors = [None] * world_size

    def worker(r):
        _tls.rank = r
        try:
            results[r] = fn(r)
        except BaseException as e:  # noqa
            errors[r] = e
            with WORLD.cv:
                WORLD.aborted = True
                WORLD.cv.notify_all()

    threads = [threading.Thread(target=worker, args=(r,)) for r in range(world_size)]
    for t in threads:
        t.start()
    for t in threads:
        t.join()
    WORLD.size = 1
    WORLD.jitter = None
    WORLD.slots = {}
    WORLD.aborted = False
    for e in errors:
        if e is not None:
            raise e
    return results
