# Harness-side stand-in for mpi4py (thread-simulated ranks). Not part of /repo.
from . import MPI  # noqa
