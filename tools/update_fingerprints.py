#!/venv/bin/python
"""Refresh /verif/fingerprints/Cxx.json from /repo's current tree (run after deliberate /repo changes)."""
import importlib, json, os, sys
V = os.path.dirname(os.path.dirname(os.path.abspath(__file__)))
sys.path.insert(0, os.path.join(V, 'harness'))
import fingerprint, stage
os.makedirs(os.path.join(V, 'fingerprints'), exist_ok=True)
ids = sys.argv[1:] or [f[:-3].upper() for f in sorted(os.listdir(os.path.join(V, 'harness', 'props'))) if f.startswith('c') and f.endswith('.py')]
for pid in ids:
    mod = importlib.import_module('props.' + pid.lower())
    mirrors = fingerprint.mirrors_of(mod, pid)
    if not mirrors:
        print(pid, 'no MIRRORS'); continue
    cur = fingerprint.compute(stage.REPO, mirrors)
    json.dump(cur, open(fingerprint.baseline_path(pid), 'w'), indent=1, sort_keys=True)
    print(pid, len(cur), 'fingerprints')
