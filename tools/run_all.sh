#!/bin/sh
# Run the quick (or given) tier of every claimed check, N at a time; print rc per property.
# usage: tools/run_all.sh [tier] [seed] [parallel]
cd "$(dirname "$0")/.."
TIER=${1:-quick}; SEED=${2:-0}; PAR=${3:-6}
mkdir -p .cache/logs
IDS=$(/venv/bin/python -c "import json;print(' '.join(c['property_id'] for c in json.load(open('MANIFEST.json'))['checks']))")
echo $IDS | tr ' ' '\n' | xargs -P $PAR -I{} sh -c "VERIF_SEED=$SEED ./check {} --tier $TIER > .cache/logs/{}.$TIER.$SEED.log 2>&1; echo {} rc=\$? \$(grep -c '^VIOLATION' .cache/logs/{}.$TIER.$SEED.log) violations \$(grep -c '^KNOWN-FINDING' .cache/logs/{}.$TIER.$SEED.log) known"
