#!/venv/bin/python
"""Confirm a seeded change: demo passes on the original tree, fails on the patched tree; existing tests unchanged.
usage: tools/confirm_seed.py <out_dir with patch.diff, demo.py> [--tests]"""
import os, shutil, subprocess, sys, tempfile, json
V = os.path.dirname(os.path.dirname(os.path.abspath(__file__)))
sys.path.insert(0, os.path.join(V, 'harness'))
out = sys.argv[1]
patch = os.path.join(out, 'patch.diff'); demo = os.path.join(out, 'demo.py')
res = {}
def run_demo(repo):
    env = dict(os.environ, VERIF_REPO=repo)
    code = ("import sys; sys.path.insert(0, %r); import stage; d,_=stage.stage(); print(d)" % os.path.join(V, 'harness'))
    d = subprocess.run(['/venv/bin/python', '-c', code], env=env, capture_output=True, text=True).stdout.strip().split('\n')[-1]
    try:
        e = dict(os.environ, PYTHONPATH=os.path.join(V, 'harness', 'mpi_stub') + ':' + d)
        r = subprocess.run(['/venv/bin/python', demo], cwd=d, env=e, capture_output=True, text=True, timeout=900)
        return r.returncode, (r.stdout + r.stderr)[-600:]
    finally:
        shutil.rmtree(d, ignore_errors=True)
tmp = tempfile.mkdtemp(prefix='confirm-')
try:
    shutil.copytree('/repo/enspara', os.path.join(tmp, 'enspara'))
    for f in ('setup.py',):
        shutil.copy(os.path.join('/repo', f), tmp)
    subprocess.run(['git', 'init', '-q', '.'], cwd=tmp)
    r = subprocess.run(['git', 'apply', '--whitespace=nowarn', patch], cwd=tmp, capture_output=True, text=True)
    if r.returncode != 0:
        print('PATCH DOES NOT APPLY to current /repo:', r.stderr[:500]); sys.exit(3)
    rc0, o0 = run_demo('/repo')
    rc1, o1 = run_demo(tmp)
    print('demo on original: rc=%d' % rc0); print('  ', o0.strip().split('\n')[-1][:300])
    print('demo on patched : rc=%d' % rc1); print('  ', o1.strip().split('\n')[-1][:300])
    ok = (rc0 == 0 and rc1 != 0)
    if '--tests' in sys.argv:
        r = subprocess.run('/venv/bin/python -m pytest -q -p no:cacheprovider --timeout=900 --continue-on-collection-errors 2>&1 | tail -1',
                           shell=True, cwd=tmp, capture_output=True, text=True)
        print('tests on patched:', r.stdout.strip())
        ok = ok and ' 47 passed' in r.stdout
    print('CONFIRMED' if ok else 'NOT CONFIRMED')
    sys.exit(0 if ok else 1)
finally:
    shutil.rmtree(tmp, ignore_errors=True)
