#!/venv/bin/python
"""Run checks against behaviour-preserving refactors (false-alarm test).
usage: tools/try_refac.py <tag e.g. R-tpt> <Cxx> [Cyy ...]
For every /tmp/refac-<tag>-out/pN.diff: apply to a scratch copy of /repo, run the 47 baseline tests there, run the given quick checks with
VERIF_REPO=<copy>, classify each outcome:
  quiet            rc=0
  obligation-only  rc=1 and every VIOLATION line ends with no-failing-input-found (allowed: the tie to the source broke, no failing input exists)
  FALSE-ALARM      rc=1 with a concrete replay (a behaviour-preserving patch must never produce one)
  error            rc=2 (harness error / timeout)
Results are kept in /verif/seeded/harmless/<tag>/ (patches + results.json)."""
import json
import os
import re
import shutil
import subprocess
import sys
import tempfile

V = os.path.dirname(os.path.dirname(os.path.abspath(__file__)))
tag = sys.argv[1]
checks = sys.argv[2:]
out = '/tmp/refac-%s-out' % tag
dst = os.path.join(V, 'seeded', 'harmless', tag)
os.makedirs(dst, exist_ok=True)
if not os.path.isdir(out):
    out = dst          # re-run of patches that are already kept
results = {}
try:
    _old = json.load(open(os.path.join(dst, 'results.json'))).get('results', {})
except Exception:  # noqa
    _old = {}
try:
    meta = json.load(open(os.path.join(out, 'meta.json')))
except Exception as e:  # noqa
    meta = {'note': 'meta.json unreadable: %s' % e}


def run_one(pn):
    patch = os.path.join(out, pn + '.diff')
    d = tempfile.mkdtemp(prefix='refac-', dir='/tmp')
    try:
        subprocess.run('cp -r /repo/enspara /repo/setup.py /repo/setup.cfg /repo/pyproject.toml %s/ 2>/dev/null' % d, shell=True)
        subprocess.run(['git', 'init', '-q', '.'], cwd=d)
        r = subprocess.run(['git', 'apply', '--whitespace=nowarn', patch], cwd=d, capture_output=True, text=True)
        if r.returncode != 0:
            return {'applies': False, 'err': r.stderr[-300:]}
        res = {'applies': True, 'checks': {}}
        for c in checks:
            env = dict(os.environ, VERIF_REPO=d)
            p = subprocess.run([os.path.join(V, 'check'), c], cwd=V, env=env, capture_output=True, text=True)
            lines = [l for l in p.stdout.split('\n') if l.startswith(('VIOLATION', 'HARNESS')) or 'violation:' in l or 'mirrored source' in l]
            viol = [l for l in lines if l.startswith('VIOLATION')]
            if p.returncode == 0:
                cls = 'quiet'
            elif p.returncode == 1 and viol and all(l.rstrip().endswith('no-failing-input-found') for l in viol):
                cls = 'obligation-only'
            elif p.returncode == 1:
                cls = 'FALSE-ALARM'
            else:
                cls = 'error'
            res['checks'][c] = {'rc': p.returncode, 'class': cls, 'lines': [l[:400] for l in lines[:6]]}
            print(tag, pn, c, cls, flush=True)
            if cls in ('FALSE-ALARM', 'error'):
                open(os.path.join(dst, '%s.%s.log' % (pn, c)), 'w').write(p.stdout[-20000:] + '\n--- stderr\n' + p.stderr[-5000:])
        return res
    finally:
        shutil.rmtree(d, ignore_errors=True)


for pn in ('p1', 'p2', 'p3', 'p4'):
    if not os.path.exists(os.path.join(out, pn + '.diff')):
        continue
    if out != dst:
        shutil.copy(os.path.join(out, pn + '.diff'), dst)
    results[pn] = run_one(pn)
    # keep the results of checks that were not re-run this time
    for c, v in (_old.get(pn, {}).get('checks') or {}).items():
        results[pn].setdefault('checks', {}).setdefault(c, v)
    results[pn]['what'] = (meta.get('patches') or {}).get(pn) or _old.get(pn, {}).get('what')
for f in ('equiv.py', 'notes.md'):
    if out != dst and os.path.exists(os.path.join(out, f)):
        shutil.copy(os.path.join(out, f), dst)
try:
    _prev = json.load(open(os.path.join(dst, 'results.json')))
except Exception:  # noqa
    _prev = {}
json.dump({'tag': tag, 'files': meta.get('files') or _prev.get('files'),
           'produced_by': 'independent sub-agent asked for behaviour-preserving refactors (brief: seeded/harmless/REFACTOR.md)',
           'agent_ran': meta.get('ran') or _prev.get('agent_ran'), 'results': results}, open(os.path.join(dst, 'results.json'), 'w'), indent=1)
print(json.dumps({pn: {c: v['class'] for c, v in (r.get('checks') or {}).items()} for pn, r in results.items()}))
