#!/usr/bin/env python3
"""Regenerate the measured tables of DESIGN.md (between <!-- BEGIN:x --> / <!-- END:x --> markers)
from evidence/, known_findings.json, seeded/*/meta.json and the Props files."""
import json
import os
import re
import sys

V = os.path.dirname(os.path.dirname(os.path.abspath(__file__)))
sys.path.insert(0, os.path.join(V, 'harness'))


def theorems(pid):
    p = os.path.join(V, 'lean', 'Props', pid + '.lean')
    if not os.path.exists(p):
        return []
    from runner import theorems_in
    return theorems_in(p)


def table_asbuilt():
    ids = [json.loads(l)['id'] for l in open(os.path.join(V, 'properties.jsonl'))]
    rows = ['| id | theorems audited | of which `_partial` / counterexample | quick: evaluations / distinct non-trivial / wall | open known findings |',
            '|----|------------------|--------------------------------------|--------------------------------------------------|---------------------|']
    kf = json.load(open(os.path.join(V, 'known_findings.json')))['findings']
    for i in ids:
        th = theorems(i)
        part = [t for t in th if t.endswith('_partial') or '_partial' in t]
        cex = [t for t in th if 'counterexample' in t]
        ev = os.path.join(V, 'evidence', i + '.json')
        if os.path.exists(ev):
            e = json.load(open(ev))
            c = e['coverage']
            q = '%d / %d / %.0f s (%s)' % (c['evaluations'], c['distinct_nontrivial'], e['wall_s'], e['tier'])
        else:
            q = '—'
        op = [f['key'] for f in kf if f['property'] == i and f['status'] == 'open']
        rows.append('| %s | %d | %d / %d | %s | %s |' % (i, len(th), len(part), len(cex), q, ', '.join('`%s`' % k for k in op) or '—'))
    return '\n'.join(rows)


def table_fixed():
    kf = json.load(open(os.path.join(V, 'known_findings.json')))['findings']
    rows = ['| property | commit in /repo | what failed before the fix |', '|---|---|---|']
    for f in kf:
        if f['status'] == 'fixed':
            rows.append('| %s | `%s` | %s |' % (f['property'], f['commit'], f['what']))
    return '\n'.join(rows)


def table_open():
    kf = json.load(open(os.path.join(V, 'known_findings.json')))['findings']
    rows = ['| property | key | what fails (reported as KNOWN-FINDING, exit 0) |', '|---|---|---|']
    for f in kf:
        if f['status'] == 'open':
            rows.append('| %s | `%s` | %s |' % (f['property'], f['key'], f['what'].replace('|', '\\|')[:400]))
    return '\n'.join(rows)


def table_seeded():
    d = os.path.join(V, 'seeded')
    rows = ['| seeded change | breaks | what it does / needs to manifest | caught by | how it was reported |', '|---|---|---|---|---|']
    for tag in sorted(os.listdir(d)):
        mp = os.path.join(d, tag, 'meta.json')
        if not os.path.exists(mp):
            continue
        m = json.load(open(mp))
        how = []
        for c, v in (m.get('checks') or {}).items():
            for ln in v.get('lines', []):
                if 'violation:' in ln:
                    how.append(re.sub(r'^\[.*?\]\s*violation:\s*', '', ln)[:140])
                elif ln.startswith('VIOLATION') and 'no-failing-input-found' in ln:
                    how.append('no-failing-input-found')
        summ = (m.get('summary') or '').replace('\n', ' ').replace('|', '\\|')
        needs = (m.get('needs_to_manifest') or '').replace('\n', ' ').replace('|', '\\|')
        rows.append('| `seeded/%s` | %s | %s **Needs:** %s | %s | %s |' % (
            tag, m.get('breaks_property'), summ[:260], needs[:260],
            ', '.join(m.get('caught_by') or []) or '**missed**', '; '.join(how)[:200] or '—'))
    return '\n'.join(rows)


TABLES = {'asbuilt': table_asbuilt, 'fixed': table_fixed, 'open': table_open, 'seeded': table_seeded}


def main():
    p = os.path.join(V, 'DESIGN.md')
    s = open(p).read()
    for name, fn in TABLES.items():
        b, e = '<!-- BEGIN:%s -->' % name, '<!-- END:%s -->' % name
        if b in s and e in s:
            i, j = s.index(b) + len(b), s.index(e)
            s = s[:i] + '\n' + fn() + '\n' + s[j:]
        else:
            print('marker missing for', name)
    open(p, 'w').write(s)
    print('DESIGN.md tables regenerated')


if __name__ == '__main__':
    main()
