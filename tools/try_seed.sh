#!/bin/sh
# usage: tools/try_seed.sh <patch.diff> <Cxx> [more Cyy...]  — apply the patch to a scratch copy of /repo and run the quick checks on it
P=$1; shift
D=$(mktemp -d /tmp/mut-XXXXXX)
cp -r /repo/enspara /repo/setup.py "$D"/ 2>/dev/null
(cd "$D" && git init -q . && git apply --whitespace=nowarn "$P") || { echo "PATCH DOES NOT APPLY"; rm -rf "$D"; exit 3; }
cd "$(dirname "$0")/.."
for id in "$@"; do
  VERIF_REPO="$D" ./check "$id" > "$D/$id.log" 2>&1; rc=$?
  echo "$id rc=$rc"; grep -E "^(VIOLATION|KNOWN-FINDING|HARNESS)" "$D/$id.log"; grep -E "violation:|mirrored source" "$D/$id.log" | head -3
done
rm -rf "$D"
