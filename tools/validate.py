#!/opt/veriftools/pyvenv/bin/python
"""Validate MANIFEST.json and every evidence file against the schemas; list claimed / unclaimed ids."""
import json, sys, os
import jsonschema
V = os.path.dirname(os.path.dirname(os.path.abspath(__file__)))
m = json.load(open(os.path.join(V, 'MANIFEST.json')))
jsonschema.validate(m, json.load(open('/root/.vp/MANIFEST.schema.json')))
ids = [json.loads(l)['id'] for l in open(os.path.join(V, 'properties.jsonl'))]
claimed = [c['property_id'] for c in m['checks']]
na = [x['property_id'] for x in m.get('not_applicable', [])]
assert sorted(claimed + na) == sorted(ids), (sorted(set(ids) - set(claimed) - set(na)), [i for i in claimed if i in na])
es = json.load(open('/root/.vp/EVIDENCE.schema.json'))
bad = 0
for c in m['checks']:
    p = os.path.join(V, c['evidence_file'])
    if not os.path.exists(p):
        print('MISSING evidence', p); bad += 1; continue
    e = json.load(open(p))
    try:
        jsonschema.validate(e, es)
        cov = e['coverage']
        assert cov['obligations'] == cov['discharged'] >= 1, 'obligations != discharged'
        print('%s ok tier=%s obligations=%d evals=%d distinct=%d wall=%.0fs viol=%s known=%s' % (
            c['property_id'], e['tier'], cov['obligations'], cov['evaluations'], cov['distinct_nontrivial'],
            e['wall_s'], e.get('violations'), cov.get('known_findings_hit')))
    except Exception as ex:
        print('INVALID', p, str(ex)[:300]); bad += 1
print('claimed:', claimed)
print('not_applicable:', na)
sys.exit(1 if bad else 0)
