#!/venv/bin/python
"""Confirm a seeded change and record it under /verif/seeded/<tag>/ with the result of running checks on it.
usage: tools/keep_seed.py <tag e.g. C03-a> <Cxx> [Cyy ...]"""
import json, os, shutil, subprocess, sys
V = os.path.dirname(os.path.dirname(os.path.abspath(__file__)))
tag = sys.argv[1]; checks = sys.argv[2:]
out = '/tmp/seed-%s-out' % tag
r = subprocess.run([os.path.join(V, 'tools', 'confirm_seed.py'), out, '--tests'], capture_output=True, text=True)
print(r.stdout[-1500:])
confirmed = r.returncode == 0
if not confirmed:
    print('not confirmed; nothing kept'); sys.exit(1)
t = subprocess.run([os.path.join(V, 'tools', 'try_seed.sh'), os.path.join(out, 'patch.diff')] + checks, capture_output=True, text=True)
print(t.stdout[-2500:])
dst = os.path.join(V, 'seeded', tag)
os.makedirs(dst, exist_ok=True)
for f in ('patch.diff', 'demo.py'):
    shutil.copy(os.path.join(out, f), dst)
meta = {}
try:
    meta = json.load(open(os.path.join(out, 'meta.json')))
except Exception as e:
    meta = {'note': 'agent meta.json unreadable: %s' % e}
res = {}
for line in t.stdout.split('\n'):
    if ' rc=' in line and line.startswith('C'):
        cid, rc = line.split(' rc=')
        res[cid] = {'rc': int(rc)}
        last = cid
    elif line.startswith(('VIOLATION', 'KNOWN-FINDING', 'HARNESS')) or 'violation:' in line:
        res[last].setdefault('lines', []).append(line.strip()[:300])
meta2 = {
    'tag': tag, 'breaks_property': meta.get('property', tag.split('-')[0]),
    'summary': meta.get('summary'), 'needs_to_manifest': meta.get('needs'), 'files': meta.get('files'),
    'produced_by': 'independent sub-agent given only the property text and a scratch worktree of /repo',
    'confirmed_by_coordinator': ['tools/confirm_seed.py: demo.py exits 0 on /repo, non-zero on /repo+patch; 47 baseline tests still pass on the patched tree',
                                 'tools/try_seed.sh: checks run with VERIF_REPO=<scratch copy of /repo + patch>'],
    'agent_ran': meta.get('ran'),
    'checks': res,
    'caught_by': sorted(c for c, v in res.items() if v['rc'] == 1),
}
json.dump(meta2, open(os.path.join(dst, 'meta.json'), 'w'), indent=1)
print('kept', dst, 'caught_by', meta2['caught_by'])
