#!/venv/bin/python
"""Re-run every kept seeded change against the checks that caught it (after harness changes).
usage: tools/rerun_seeds.py [parallel=4] [tag-prefix]
Prints one line per (seed, check): CAUGHT (rc=1 with a concrete replay), OBLIGATION-ONLY, MISSED (rc=0), ERROR (rc=2), NOAPPLY;
updates the 'checks'/'caught_by' fields of seeded/<tag>/meta.json."""
import json
import os
import subprocess
import sys
from concurrent.futures import ThreadPoolExecutor

V = os.path.dirname(os.path.dirname(os.path.abspath(__file__)))
par = int(sys.argv[1]) if len(sys.argv) > 1 else 4
prefix = sys.argv[2] if len(sys.argv) > 2 else ''


def one(tag):
    d = os.path.join(V, 'seeded', tag)
    mp = os.path.join(d, 'meta.json')
    m = json.load(open(mp))
    if m.get('obsolete_on_head'):
        return tag, 'obsolete_on_head', m
    checks = sorted(set(m.get('caught_by') or []) | {m.get('breaks_property') or tag.split('-')[0]})
    t = subprocess.run([os.path.join(V, 'tools', 'try_seed.sh'), os.path.join(d, 'patch.diff')] + checks, capture_output=True, text=True)
    if 'PATCH DOES NOT APPLY' in t.stdout:
        return tag, 'NOAPPLY', m
    res, last = {}, None
    for line in t.stdout.split('\n'):
        if ' rc=' in line and line.startswith('C'):
            cid, rc = line.split(' rc=')
            res[cid] = {'rc': int(rc)}
            last = cid
        elif last and (line.startswith(('VIOLATION', 'KNOWN-FINDING', 'HARNESS')) or 'violation:' in line):
            res[last].setdefault('lines', []).append(line.strip()[:300])
    out = []
    for c, v in res.items():
        viol = [l for l in v.get('lines', []) if l.startswith('VIOLATION')]
        if v['rc'] == 0:
            cls = 'MISSED'
        elif v['rc'] == 1 and viol and all(l.rstrip().endswith('no-failing-input-found') for l in viol):
            cls = 'OBLIGATION-ONLY'
        elif v['rc'] == 1:
            cls = 'CAUGHT'
        else:
            cls = 'ERROR'
        v['class'] = cls
        out.append('%s:%s' % (c, cls))
    m['checks'] = res
    m['caught_by'] = sorted(c for c, v in res.items() if v['rc'] == 1)
    json.dump(m, open(mp, 'w'), indent=1)
    return tag, ' '.join(out), m


tags = sorted(t for t in os.listdir(os.path.join(V, 'seeded')) if t.startswith(prefix) and os.path.exists(os.path.join(V, 'seeded', t, 'meta.json')))
with ThreadPoolExecutor(par) as ex:
    for tag, status, _ in ex.map(one, tags):
        print(tag, status, flush=True)
