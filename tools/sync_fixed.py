#!/usr/bin/env python3
"""Rebuild the status=fixed entries of known_findings.json from /repo's `fix:` commits and merge the
open entries of known_findings.d/*.json into it (the runner reads both; this keeps the single committed
file complete)."""
import json, os, subprocess
V = os.path.dirname(os.path.dirname(os.path.abspath(__file__)))
PROP = [  # (substring of the commit subject, property, what failed before the fix)
 ('MSM.__init__ ignored', 'C16', 'MSM(..., sliding_window=False) counted with a sliding window'),
 ('_prinz_mle_py compared', 'C12', 'builders.mle / _prinz_mle_py raised AssertionError from rounding on most strongly connected count matrices'),
 ('builders.mle failed on every scipy sparse', 'C04', 'builders.mle(sparse matrix) raised ValueError'),
 ('transposed state-count grid', 'C18', 'channel_capacity_normalization divided entry (i,j) by log(min(n_x[j], n_y[i]))'),
 ('matrix_bincount2d wrote out of bounds', 'C18', 'joint_counts with a negative state id wrote out of bounds instead of rejecting it'),
 ('masked ufuncs left', 'C19', 'shannon_entropy / mutual_information results depended on heap contents (masked ufunc without out=)'),
 ('kcenters raised UnboundLocalError', 'C02', 'kcenters warm start already meeting the stopping rule raised UnboundLocalError'),
 ("k-medoids overwrote the caller", 'C01', "kmedoids(..., cluster_center_inds=ci) modified ci in place"),
 ('RaggedArray slice assignment failed', 'C14', 'assemble_striped_ragged_array failed when a rank owned >= 2 equal-length trajectories'),
 ('RaggedArray block assignment into an equal-length', 'C14', 'assemble_striped_ragged_array failed when all trajectories had equal length and a rank owned >= 2'),
 ('dropped trailing trajectories', 'C20', 'disorder.transitions 2-D dropped trailing trajectories without transitions'),
 ('failed when no trajectory had a transition', 'C20', 'disorder.transitions 2-D raised when no trajectory had a transition'),
 ('tpt.mfpts raised TypeError', 'C07', 'mfpts(sparse) raised TypeError'),
 ('tpt.net_fluxes raised ValueError', 'C08', 'net_fluxes(sparse) raised ValueError'),
 ('ra.load ignored stride', 'C15', 'ra.load(f, stride=s) ignored the stride for single-node files'),
 ('default state count overflowed', 'C18', 'joint_counts default n_x = X.max()+1 overflowed int8/uint8/int16 data'),
 ('dtype harmonisation wrapped', 'C18', 'joint_counts cast by item size wrapped ids (int8 -1 counted in cell 255; uint8 200 rejected)'),
 ('log in half/single precision', 'C18', 'channel_capacity_normalization took np.log of int8/int16 state counts in float16/float32'),
 ('returned one path when num_paths was 0', 'C17', 'tpt.paths(num_paths=0) returned one path'),
 ('compute_batches emitted an empty first batch', 'C10', 'batch_reassign raised IndexError when the first trajectory alone filled a batch'),
 ('bincount2d wrote out of bounds for state ids outside', 'C18', 'libinfo.bincount2d had no range guard (lost count / interpreter crash)'),
 ('ctr_ids_mpi used np.where', 'C14', 'ctr_ids_mpi with flat global center ids raised ValueError for unequal trajectory lengths'),
 ('striped loaders reported unstrided lengths', 'C14', 'load_h5_as_striped / load_npy_as_striped with stride > 1 returned unstrided lengths / AssertionError'),
 ('striped_array_mean asserted', 'C14', 'striped_array_mean raised AssertionError for data with negative entries'),
 ('convergence warning raised TypeError', 'C12', 'reaching max_iter in either Prinz MLE implementation raised TypeError instead of warning'),
 ('prior counts on a sparse matrix produced numpy.matrix', 'C04', 'builders.mle(sparse, prior=ndarray) raised ValueError (numpy.matrix counts)'),
 ('builders.transpose failed on bsr', 'C04', 'builders.transpose on bsr matrices with blocks larger than (1,1) raised ValueError'),
 ('truncated returned counts for integer lil/dok', 'C04', 'builders.transpose returned truncated symmetrised counts for integer lil/dok input'),
 ('2-d reads mishandled negative', 'C05', 'RaggedArray 2-d reads: negative column start, negative steps, out-of-range row bounds, empty selections, multi-dim cells on the equal-length fast path'),
 ('row writes failed or corrupted data on equal-length', 'C06', 'RaggedArray row writes on equal-length arrays: a[i]=row of another length, a[sel]=rows, object-dtype _data after a row write, augmented assignment on an empty row selection'),
 ('append of a flat row raised', 'C06', 'RaggedArray.append([x, y]) raised ValueError'),
 ('rows of an equal-length RaggedArray were copies', 'C06', 'row = a[i]; row[j] = x on an equal-length array left _data stale'),
 ('numpy scalar as left operand', 'C06', 'np.int64(2) * ragged_array (numpy scalar on the left of an operator) raised ValueError or returned a plain ndarray'),
 ('asserted c <= 0 on a quantity', 'C12', 'both Prinz MLE implementations raised AssertionError (assert c <= 0) from rounding on strongly connected count matrices with pendant states'),
 ('rejected a lengths hint of numpy integers', 'C15', 'load_as_concatenated(files, lengths=<numpy integers>) raised TypeError'),
 ('weighted_mi failed for integer weight vectors', 'C18', 'weighted_mi with an integer one-hot weight vector raised UFuncTypeError'),
 ('0-d population array for one-state', 'C16', 'MSM.load of a one-state model returned 0-d eq_probs_ (shape differs from the saved model; second save failed)'),
 ('save(force=True) could not replace', 'C16', 'MSM.save(path, force=True) raised on an existing model directory (os.remove on a directory)'),
 ('wrapped frame indices for narrow label dtypes', 'C10', 'find_cluster_centers with int8/uint8 assignments returned wrapped frame indices >= 128/256; list inputs mis-compared'),
 ('matrix product for numpy.matrix input', 'C08', 'reactive_fluxes / net_fluxes with numpy.matrix tprob silently returned a matrix product instead of the element-wise flux'),
 ('assigns_to_counts inferred state count overflowed', 'C03', 'assigns_to_counts with the state count inferred raised ValueError for uint8/uint16/int8 data visiting the top state of the dtype'),
 ('append replaced an array whose rows are all empty', 'C06', 'RaggedArray([[],[]]).append([[1]]) gave [[1]] instead of [[],[],[1]]'),
 ('weighted_mi default n_feature_states', 'C18', 'weighted_mi with the default n_feature_states raised ValueError when a feature id equals its dtype maximum (127 int8, 255 uint8) or is >= 32767: the count wrapped'),
 ('paired reads with a one-element list or narrow-int', 'C05', 'a[[0,1],[2]] returned a 2-d block, a[[0,1,2],[-1]] raised; int8/int16 negative index arrays into rows or arrays longer than the dtype range wrapped to a wrong cell or raised OverflowError'),
]
log = subprocess.run(['git', '-C', '/repo', 'log', '--reverse', '--format=%h|%s'], capture_output=True, text=True).stdout.strip().split('\n')
fixed = []
for line in log:
    h, s = line.split('|', 1)
    if not s.startswith('fix:'):
        continue
    hit = [(p, w) for sub, p, w in PROP if sub in s]
    assert len(hit) == 1, (s, hit)
    p, w = hit[0]
    fixed.append({'property': p, 'key': 'fixed-' + h, 'status': 'fixed', 'commit': h, 'what': w,
                  'line': 'fixed: property=%s %s %s' % (p, h, w)})
openf = []
d = os.path.join(V, 'known_findings.d')
for fn in sorted(os.listdir(d)):
    if fn.endswith('.json'):
        for f in json.load(open(os.path.join(d, fn))).get('findings', []):
            if f.get('status') == 'open':
                openf.append(f)
out = {
 'comment': ('Genuine defects of bowman-lab/enspara found by the checks. status=open entries are reported as KNOWN-FINDING and do not '
             'fail a check (matched by key, which the check computes from the specific failing input class / call site); status=fixed '
             'entries suppress nothing. Never written at run time. Open entries are mirrored from known_findings.d/Cxx.json by tools/sync_fixed.py.'),
 'findings': fixed + openf,
}
json.dump(out, open(os.path.join(V, 'known_findings.json'), 'w'), indent=1)
print(len(fixed), 'fixed;', len(openf), 'open:', [(f['property'], f['key']) for f in openf])
