#!/usr/bin/env python3
"""Regenerate /verif/MANIFEST.json from the table below. CLAIMED lists the properties whose
check is built, passes on the unchanged tree and has committed evidence."""
import json
import os

V = os.path.dirname(os.path.dirname(os.path.abspath(__file__)))

CLAIMED = os.environ.get('CLAIMED', '').split() or [
    'C01', 'C02', 'C03', 'C04', 'C05', 'C06', 'C07', 'C08', 'C09', 'C10', 'C11', 'C12', 'C13', 'C14', 'C15', 'C16', 'C17', 'C18', 'C19', 'C20',
]

TB = ("trusted: Lean 4.33 kernel; axioms propext/Classical.choice/Quot.sound only (audited per theorem each run); "
      "Mathlib v4.33 in proof files; the hand-written model is tied to /repo only by this run's correspondence cases "
      "(differential testing of the real functions against the compiled Lean driver + the property predicate evaluated "
      "on every real output); ")

T = {
 'C01': ("Lean theorems: the running-minimum / PAM state of k-centers, k-medoids and k-hybrid keeps the invariant Consistent "
         "(centers are the frames at their indices, distance = metric to the assigned center, no center strictly closer, labels in range, "
         "centers carry their own label at distance 0) for all tables, sizes, proposal oracles; tied to the code by table-metric and kernel-metric differential runs",
         TB + "aliasing (inputs unmodified) and float rounding are outside the model and checked by snapshots / exact small-integer data only"),
 'C02': ("Lean theorems about the k-centers loop model: first center, greedy farthest-first choice, antitone radius, Gonzalez 2-approximation (pigeonhole), "
         "exact stopping (neither early nor late, incl. zero iterations), termination, triangle-inequality shortcut equivalence; differential runs on true metrics with ties",
         TB + "float rounding outside the model (integer tables are exact)"),
 'C03': ("Lean theorems about the slicing model of the counting code (pairs = lagged pairs inside one row, totals, additivity, permutation, padding, square shape) for all inputs; "
         "CPython slice semantics sub-model checked exhaustively on a small scope each run; differential runs on ragged/padded/permuted inputs and through MSM.fit",
         TB + "scipy coo duplicate summing"),
 'C04': ("Lean theorems over an exact field: row normalisation is stochastic, prior counts are added first, transpose and MLE output stages give detailed balance / stationarity / probability vectors, "
         "normalize is stationary given the eigen-solver contract, container decision table; differential runs over all builders x containers x priors",
         TB + "LAPACK eig and float rounding are parameters/tolerances, not proved"),
 'C05': ("Lean refinement theorems: the flat-offset index arithmetic of RaggedArray reads equals reading the list of rows, per index form; "
         "grammar-driven and exhaustive small-scope differential reads against a list-of-rows oracle",
         TB + "numpy fancy indexing on the flat buffer; dtype and cell dimensions are checked by the Python oracle only"),
 'C06': ("Lean refinement over operation histories: every writer keeps data/array/lengths coherent and refines a list-of-rows interpreter (induction over the op list); "
         "random-history differential runs with all observers compared after every step",
         TB + "aliasing/copy semantics are checked by probes only"),
 'C07': ("Lean theorems: for any solver output satisfying the linear-system contract, committors satisfy the first-step equations with 0/1 boundary values and lie in [0,1] (discrete maximum principle); "
         "sink MFPTs and the all-pairs table satisfy their first-step equations, agree column by column and are linear in the lag; exact certified Rat solutions compared with the real code",
         TB + "LAPACK/SuperLU solvers are parameters with contracts (checked per case by exact residual certificates), floats compared within 1e-9"),
 'C08': ("Lean theorems: flux definition, net flux = positive part with one direction per pair, conservation at intermediates for reversible chains, no flow into sources/out of sinks, "
         "total outflow = total inflow, reactive populations form a probability vector vanishing on sources and sinks when the normaliser is positive (partial; zero normaliser = open known finding with a decide-checked counterexample); differential runs on reversible rational chains incl. near-reducible wells, dense and sparse",
         TB + "floats compared within condition-number-derived allowances; committors enter through the C07 contract (existence of the solver output proved)"),
 'C09': ("Lean theorems: a PAM update never increases the cost, rejection discards the candidate state wholesale, k and membership of centers in the data are kept, along every accept/reject history; "
         "hybrid cost <= its k-centers start; differential runs with explicit proposals and recorded RNG choices",
         TB + "cost comparison ties within float rounding are skipped and counted"),
 'C10': ("Lean theorems: nearest-center assignment is the first arg-min, partition/concatenation round trip, flat index -> (trajectory, frame) conversion, rectangular iff equal lengths, per-label center finder; "
         "differential runs of the util functions and predict",
         TB + "mdtraj batch path exercised in the thorough tier only"),
 'C11': ("Lean theorems: the Warshall closure is reachability; the kept set is a strongly connected component of maximal original weight, first-max tie-break; entries preserved / zeroed; "
         "trimmed matrix strongly connected; mapping is an order isomorphism; renumbered = in-place restricted; csv round trip; differential runs over component-structured digraphs x 8 containers and MSM.fit",
         TB + "scipy's SCC labelling is a parameter constrained by validLabeling, evaluated on scipy's real labels for every case"),
 'C12': ("Lean theorems about the Prinz sweep over an exact field: invariants (symmetric, non-negative, row sums), c <= 0, the update is the non-negative root, a fixed sweep implies the Prinz equations, output validity; "
         "global optimality of an exact fixed point over reversible matrices with the same support (Jensen + Prinz equations); Float instance of the model vs both implementations",
         TB + "IEEE rounding, libm log and convergence of the loop to a fixed point within max_iter are outside the proof"),
 'C13': ("Lean theorems: per-row kernel results equal the norms (full for floats-as-rationals and int8/int16, under NoOverflow for int32/int64), strided reads equal logical reads, "
         "every interleaving of row programs gives the sequential result, validation implies in-bounds indices, outputs independent of initial buffer; fused type lists regenerated from the source; dtype x layout x thread sweeps",
         TB + "real data races / out-of-bounds accesses of the compiled object are only sampled (threads 1..16, valgrind in thorough)"),
 'C14': ("Lean theorems: round-robin stripes partition the trajectories, local->global index conversion, ragged reassembly, striped max/mean, random index bijection, distributed k-centers refines the serial run on tie-free data; "
         "real mpi_mode code run on thread-simulated ranks 1..8 with random arrival orders",
         TB + "the mpi4py stand-in is not an MPI library (message passing, process boundaries, Bcast buffers are outside)"),
 'C15': ("Lean theorems: zero-padded key order = row order for every row count, stride lengths, load with stride/subset = slicing, save/load round trip of the logical model, "
         "window disjointness and completion-order independence of the parallel loader; HDF5 round trips and process-pool runs with injected delays",
         TB + "HDF5/PyTables node listing order, the process pool and shared memory are runtime, sampled only"),
 'C16': ("Lean theorems: fit = counts -> trim -> builder for the config passed, identity mapping when untrimmed, mapping/record round trips, sorted spectrum post-processing, |lambda| <= 1 for stochastic matrices, "
         "uniqueness and positivity of the stationary vector of an irreducible chain, implied-timescale formula, n-step propagation = T^n; differential runs over the config product, save/load, spectra",
         TB + "LAPACK/ARPACK and decimal I/O round trips are parameters (observed exact, not proved)"),
 'C17': ("Lean theorems: top path is a valid simple source->sink path with bottleneck flux and is widest (Dijkstra argument, closed), successive fluxes antitone, count respected, termination, "
         "sum <= outflow for the subtract scheme; exhaustive simple-path enumeration against the real code",
         TB + "the bottleneck scheme over-explaining flux is an open known finding (decide-checked counterexample)"),
 'C18': ("Lean theorems: joint counts are exact for every interleaving of the parallel loop, guard soundness, additivity, frame-permutation/relabel invariance; over the reals MI >= 0, symmetry, diagonal = entropy, "
         "KL >= 0; channel-capacity normalisation entry formula; kernel statements and fused dtype lists regenerated from libinfo.pyx each run and re-decided; dtype x layout x thread sweeps and libm-evaluated term lists",
         TB + "fewer than 2^32 frames; libm log; compiled object sampled only"),
 'C19': ("Lean: masked element-wise operations are garbage-independent iff every masked-out cell comes from an initialised out; the list of masked-ufunc call sites and empty-allocation sites is regenerated from /repo's source "
         "on every run and the obligation `all sites pass out=` is re-decided; kernels zero outputs; perturbation runs (repeat, threads, heap poisoning, MALLOC_PERTURB_, argument snapshots) over the numerical API",
         TB + "`never reads uninitialised memory` in general is a statement about the interpreter and C runtime and is only sampled"),
 'C20': ("Lean theorems: the rotamer loop refines the hysteresis automaton for every boundary set generated from the source and every accepted buffer without self-wrap; zero buffer = binning; states valid; "
         "transition bookkeeping spec (1-D, 2-D); angle-sequence differential runs incl. the 0/360 seam, wrappers on a peptide trajectory",
         TB + "two-basin sets with self-wrapping buffers are an open known finding with a decide-checked counterexample"),
}

SECTION = {i: 'DESIGN.md section 5, %s' % i for i in T}

REASON_NOT_YET = 'check still under construction when this manifest was written (model/theorems/correspondence not yet integrated); not a claim that the technique cannot apply'


def main():
    ids = [json.loads(l)['id'] for l in open(os.path.join(V, 'properties.jsonl'))]
    checks = []
    for i in ids:
        if i not in CLAIMED:
            continue
        text, note = T[i]
        checks.append({
            'property_id': i,
            'quick_cmd': './check %s' % i,
            'thorough_cmd': './check %s --tier thorough' % i,
            'evidence_file': 'evidence/%s.json' % i,
            'replay_cmd_template': './check %s --replay {path}' % i,
            'engine': 'lean-proof+correspondence',
            'level_claimed': {'category': 'proof', 'text': text, 'design_ref': SECTION[i]},
            'level_note': note,
            'technique': 'Lean 4 machine-checked proof over an executable model + correspondence check against the real code',
        })
    m = {
        'version': 1,
        'setup_cmd': './setup.sh',
        'hooks': {
            'guard': 'ENSPARA_VERIF',
            'enable': ("no source hooks: checks stage /repo's working tree out of tree, build its Cython extensions there and run with "
                       "ENSPARA_VERIF=1 and a harness-side mpi4py stand-in first on PYTHONPATH"),
            'baseline_off_cmd': ('cd /repo && env -u ENSPARA_VERIF /venv/bin/python -m pytest -ra -q -p no:cacheprovider '
                                 '--timeout=900 --continue-on-collection-errors'),
            'source_commits': [],
            'add_only': True,
        },
        'engines': [{
            'name': 'lean-proof+correspondence', 'path': 'check', 'serves_properties': [c['property_id'] for c in checks],
            'kind_free_text': ('Lean 4 theorems about hand-written executable models (lean/Model, lean/Proofs, lean/Props), tied to /repo by a '
                               'differential correspondence run (harness/props/*.py) against per-property compiled Lean drivers, plus small '
                               'source->Lean translators for generated tables (C13, C19, C20)'),
        }],
        'checks': checks,
        'notes': ('Exit codes: 0 held, 1 violation (VIOLATION line printed), 2 harness trouble. Known findings: known_findings.json. '
                  'Genuine defects repaired in /repo are `fix:` commits listed there as fixed.'),
        'not_applicable': [{'property_id': i, 'reason': REASON_NOT_YET} for i in ids if i not in CLAIMED],
    }
    json.dump(m, open(os.path.join(V, 'MANIFEST.json'), 'w'), indent=1)
    print('claimed', [c['property_id'] for c in checks])


if __name__ == '__main__':
    main()
